"""BOUNDED stand-in for Problem.__init__ (elimination of fixed variables, scaling, reduced linear constraints) - C02.O2/O4, C10.O2,
C08 (no crash for all-fixed problems).

The 2-D array manipulations of Problem.__init__ / LinearConstraints.__init__ (row masks, vstack, NaN scrubbing) are outside the reach
of the Mode A proxies built so far; as the brief allows, the real constructor is run natively on seeded random problem statements and
its result is compared with the specification written from the statement:
  * every fixed pattern (none / some / all variables fixed by equal bounds), finite and infinite bounds, scale on/off,
    linear constraints with one-sided, two-sided and equality rows, n_orig in 1..4, up to 3 rows per constraint object;
  * for random reduced points x:  the internal linear residuals equal those of the user's constraints at build_x(x), and
    Problem.maxcv(x, cub, ceq) equals the true maximum violation of the user's bounds / linear / nonlinear constraints at build_x(x)
    (N3 for equalities), up to rounding.
Labelled bounded; never counted as proved."""
import os
import z3
import numpy as np
from pyvc.unit import Unit
from pyvc.transform import ensure_repo_on_path
from .subsolvers_bounded import rng_for


def ncases():
    import os
    return 4000 if os.environ.get("VERIF_TIER") == "thorough" else 400


def true_cv(xf, lb, ub, lin, nl_vals):
    """Maximum violation of the constraints as the user stated them (written from the statement)."""
    v = 0.0
    if lb is not None:          # bounds (0 when they are consistent: build_x projects)
        v = max(0.0, float(np.max(lb - xf, initial=0.0)), float(np.max(xf - ub, initial=0.0)))
    for (A, l, u) in lin:
        l, u = np.where(np.isnan(l), -np.inf, l), np.where(np.isnan(u), np.inf, u)      # a NaN limit means "no limit"
        r = np.where(np.isnan(A), 0.0, A) @ xf                                             # a NaN coefficient counts as zero
        v = max(v, float(np.max(np.maximum(l - r, 0.0), initial=0.0)), float(np.max(np.maximum(r - u, 0.0), initial=0.0)))
    for (val, l, u) in nl_vals:
        v = max(v, float(np.max(np.maximum(l - val, 0.0), initial=0.0)), float(np.max(np.maximum(val - u, 0.0), initial=0.0)))
    return v


class ProblemInitBounded(Unit):
    name = "problem.init_bounded"
    props = ("C02", "C10", "C08", "C01", "C17")
    fmodel = "ORDER"
    functions = [("cobyqa.problem", "Problem.__init__"), ("cobyqa.problem", "LinearConstraints.__init__"), ("cobyqa.problem", "Problem.maxcv"),
                 ("cobyqa.problem", "LinearConstraints.violation")]

    @property
    def bounded(self):
        return (f"native run-time contracts on {ncases()} seeded random problem statements (n_orig 1..4, every fixed pattern incl. all fixed, "
                f"finite/infinite bounds, scale on/off, 0..2 linear constraint objects with up to 3 rows of each kind)")

    def run(self, c):
        ensure_repo_on_path()
        from cobyqa.problem import ObjectiveFunction, BoundConstraints, LinearConstraints, NonlinearConstraints, Problem
        from scipy.optimize import Bounds, LinearConstraint, NonlinearConstraint
        rng = rng_for(self.name)
        N = ncases()
        fails, seen = {}, set()

        def chk(nm, ok, info):
            seen.add(nm)
            if not ok and nm not in fails:
                fails[nm] = info
        with np.errstate(all="ignore"):
            for k in range(N):
                n = int(rng.integers(1, 5))
                pattern = rng.integers(0, 3, n)            # 0 free-infinite, 1 finite box, 2 fixed
                if k % 7 == 0:
                    pattern[:] = 2                          # all variables fixed
                lb = np.where(pattern == 0, -np.inf, rng.uniform(-3, 0, n))
                ub = np.where(pattern == 0, np.inf, lb + rng.uniform(0.5, 4, n))
                ub = np.where(pattern == 2, lb, ub)
                if rng.random() < 0.3:
                    pattern = np.where(pattern == 0, 1, pattern)
                    lb = np.where(np.isinf(lb), rng.uniform(-3, 0, n), lb)
                    ub = np.where(np.isinf(ub), lb + rng.uniform(0.5, 4, n), ub)
                inconsistent = bool(rng.random() < 0.12)
                if inconsistent:
                    # the bounds of one variable cross (lb > ub): minimize answers status -1 at x0, and the reported maxcv must still
                    # be the true violation there; variables fixed by equal bounds elsewhere keep their value
                    j = int(rng.integers(0, n))
                    lb[j] = rng.uniform(-1, 1)
                    ub[j] = lb[j] - rng.uniform(0.25, 2)
                    pattern[j] = 1
                scale = bool(rng.random() < 0.5)
                x0 = rng.uniform(-4, 4, n)
                lin = []
                for _ in range(int(rng.integers(0, 3))):
                    m = int(rng.integers(1, 4))
                    A = rng.uniform(-2, 2, (m, n))
                    if rng.random() < 0.15:
                        # an undefined coefficient counts as zero (the package scrubs NaN coefficients), in rows of every kind
                        A[int(rng.integers(0, m)), int(rng.integers(0, n))] = np.nan
                    kind = rng.integers(0, 4, m)
                    l = np.where(kind == 0, -np.inf, rng.uniform(-2, 0, m))
                    u = np.where(kind == 1, np.inf, np.where(kind == 0, 0.0, l) + rng.uniform(0.1, 3, m))
                    u = np.where(kind == 3, l, u)
                    if rng.random() < 0.25:
                        # "no limit" written as NaN instead of an infinity (accepted by the package: NaN limits are ignored)
                        l = np.where(np.isneginf(l), np.nan, l)
                        u = np.where(np.isposinf(u), np.nan, u)
                    lin.append((A, l, u))
                info = dict(case=k, lb=lb.tolist(), ub=ub.tolist(), scale=scale, x0=x0.tolist(),
                            linear=[(A.tolist(), l.tolist(), u.tolist()) for A, l, u in lin])
                try:
                    obj = ObjectiveFunction(lambda x: float(x @ x), False, False)
                    nlc = NonlinearConstraints([NonlinearConstraint(lambda x: np.array([np.sum(x), x[0] ** 2]), [-1.0, -np.inf], [2.0, 0.5])], False, False)
                    pb = Problem(obj, x0, BoundConstraints(Bounds(lb, ub)), LinearConstraints([LinearConstraint(A, l, u) for A, l, u in lin], n, False),
                                 nlc, None, 1e-8, scale, False, 1, 1, False)
                except Exception as e:
                    chk("C08.problem_init.no_exception", False, dict(info, error=repr(e)))
                    continue
                chk("C08.problem_init.no_exception", True, info)
                fixed = pattern == 2
                chk("C10.problem_init.dimension", pb.n == int(np.count_nonzero(~fixed)) and pb.n_orig == n, info)
                for _t in range(3):
                    if pb.n:
                        xr = pb.x0 + rng.uniform(-0.3, 0.3, pb.n) if _t else pb.x0
                        xr = np.clip(xr, pb.bounds.xl, pb.bounds.xu)
                    else:
                        xr = np.zeros(0)
                    xf = pb.build_x(xr)
                    if inconsistent:
                        chk("C01.problem_init.fixed_variables_held_even_with_inconsistent_bounds", bool(np.all(xf[fixed] == lb[fixed])), dict(info, x=xr.tolist()))
                    else:
                        chk("C01.problem_init.build_x_inside_bounds", bool(np.all(lb <= xf) and np.all(xf <= ub) and np.all(xf[fixed] == lb[fixed])), dict(info, x=xr.tolist()))
                    # internal linear residuals versus the user's constraints at the rebuilt point
                    internal = max(float(np.max(pb.linear.a_ub @ xr - pb.linear.b_ub, initial=0.0)) if pb.linear.m_ub else 0.0,
                                   float(np.max(np.abs(pb.linear.a_eq @ xr - pb.linear.b_eq), initial=0.0)) if pb.linear.m_eq else 0.0, 0.0)
                    user_lin = true_cv(xf, None, None, lin, [])
                    tol = 1e-9 * (1.0 + user_lin)
                    chk("C10.problem_init.linear_residuals_match_user_constraints", abs(internal - user_lin) <= tol,
                        dict(info, x=xr.tolist(), internal=internal, user=user_lin))
                    cub, ceq = nlc(xf)
                    val = np.array([np.sum(xf), xf[0] ** 2])
                    want = true_cv(xf, lb, ub, lin, [(val, np.array([-1.0, -np.inf]), np.array([2.0, 0.5]))])
                    got = float(pb.maxcv(xr, cub, ceq))
                    chk("C02.problem_init.maxcv_is_true_violation", abs(got - want) <= 1e-9 * (1.0 + want), dict(info, x=xr.tolist(), got=got, want=want))
        for nm in sorted(seen):
            c.oblige(f"{nm}[{N} cases]", z3.BoolVal(nm not in fails), kind="bounded", note=str(fails.get(nm))[:1500] if nm in fails else None)


UNITS = [ProblemInitBounded()]
