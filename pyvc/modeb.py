"""Mode B: fixed-dimension, exact symbolic execution of the REAL cobyqa.models code (DESIGN 2.4, "Vectors, fixed shape").

The untransformed source of $REPO/cobyqa/models.py is exec'd into a fresh module namespace ("cobyqa.models__modeb").
Afterwards only three names of that namespace are replaced:

  * `np`    -> a thin proxy that forwards everything to numpy, except that the constructors empty/zeros/ones/full/eye/
               zeros_like default to dtype=object, `np.linalg.norm` of an object array returns an opaque marker and
               `np.max(<that marker>, initial=...)` returns the positive symbol SCALE (assumption "SCALE": the scaling
               factor of build_system is an arbitrary positive real; every identity is decided for all its values);
               np.any / np.all / np.count_nonzero take the EXACT truth value of every entry (an Sc is true iff it is not
               identically zero), and abs() / np.abs / np.isclose / np.allclose are decided exactly when the operands are
               constants of the field (|a-b| <= atol + rtol*|b| over QQ, defaults 1/10^5 and 1/10^8) or identically equal;
               on a non-constant rational function they raise Unsupported (engine gap: Mode B never forks);
  * `eigh`  -> a stub returning (None, None) (the eigen-decomposition cannot run symbolically);
  * `Quadratic.solve_systems` -> its assumed contract SOLVE: the exact solution of the linear system whose matrix and
               scaling are the ones returned by the REAL build_system:  x = R * (a^-1 (R * rhs)),  R = diag(right_scaling).

(`Quadratic.update` is additionally wrapped by a logger that records which model objects were updated - ghost state; the
real body runs unchanged.)  All other functions are the real ones, executed by CPython on NumPy `object` arrays whose entries
are `Sc` scalars.  An `Sc` wraps an element of the rational function field QQ(g1,...,gm) (sympy.polys.fields): arithmetic is
exact and canonical (cancelled) normal forms are kept, so that an identity  lhs == rhs  is decided by  lhs - rhs == 0.
Python floats met on the way (the code writes `0.5`, `** 2.0`, `= 1.0`) are converted exactly (they are dyadic rationals);
no sympy Float is ever created.

Determinant denominators.  The only non-monomial denominators come from inverting the interpolation system.  To avoid a
multivariate gcd at every arithmetic step, 1/D (D = determinant of a solved system, a polynomial in the geometry symbols)
is represented by a *reciprocal generator* iDk of the field together with the recorded relation iDk * D_k = 1; all later
arithmetic is then polynomial.  The zero test (FieldCtx.is_zero) is exact modulo these relations: a numerator
sum_J c_J prod_k iDk^{J_k} vanishes iff the polynomial  sum_J c_J prod_k D_k^{deg_k - J_k}  is identically zero.
Setting MODEB_NO_LAZY=1 disables the device (plain canonical fractions; slower) - used to cross-check it.
The linear algebra itself (inverse, determinant) is fraction-free (Bareiss / rref_den of sympy's DomainMatrix over ZZ[gens]).
selftest() runs positive and negative controls of the zero test, the array arithmetic and the inverse once per process.
"""
import os
import signal
import sys
import time
import types
import zlib
import random
from fractions import Fraction

import numpy as _np
from sympy import QQ
from sympy.polys.fields import field as _field, FracElement as _FracElement
from sympy.polys.matrices import DomainMatrix

from .core import Unsupported
from .transform import ensure_repo_on_path, repo_root

SEED = int(os.environ.get("VERIF_SEED", "0") or 0)


def _tier():
    a = sys.argv
    for i, x in enumerate(a):
        if x == "--tier" and i + 1 < len(a):
            return a[i + 1]
        if x.startswith("--tier="):
            return x.split("=", 1)[1]
    return os.environ.get("VERIF_TIER", "quick")


THOROUGH = _tier() == "thorough"
LAZY = os.environ.get("MODEB_NO_LAZY", "") == ""     # reciprocal generators for determinants (see FieldCtx.reciprocal)

ASSUME_SOLVE = ("SOLVE: Quadratic.solve_systems returns the exact solution of the system built by the real build_system "
                "(eigh exact; the ill-conditioned / truncated branch is not modelled unless the obligation says so)")
ASSUME_REAL = "machine arithmetic treated as mathematical (exact rational-function arithmetic, no rounding, no NaN/inf)"
ASSUME_SCALE = ("SCALE: the value np.max(np.linalg.norm(xpt, axis=0), initial=EPS) computed inside build_system is modelled "
                "as an arbitrary positive real symbol; the identities are decided for every value of it")
ASSUME_KKT = ("cited, not mechanised: the KKT conditions characterise the solution of the strictly convex "
              "least-Frobenius-norm interpolation problem")
MODEB_ASSUMPTIONS = [ASSUME_SOLVE, ASSUME_REAL, ASSUME_SCALE]


class SingularSystem(Exception):
    """The matrix returned by build_system is singular for the (poised) interpolation set at hand."""


class CaseTimeout(Exception):
    pass


# ---------------------------------------------------------------------------------------------------------
# scalars
# ---------------------------------------------------------------------------------------------------------
class FieldCtx:
    """The rational function field QQ(names) of one case."""

    NDEN = 4          # reciprocal generators available per case (one per distinct system solved)

    def __init__(self, names, lazy=None):
        self.lazy = LAZY if lazy is None else lazy
        self.den_names = [f"iD{i}" for i in range(self.NDEN)]
        names = list(names) + ["SCALE"] + self.den_names
        if len(set(names)) != len(names):
            raise Unsupported("duplicate generator names")
        res = _field(names, QQ)
        self.K = res[0]
        self.dom = self.K.to_domain()
        self.gens = dict(zip(names, res[1:]))
        self.index = {nm: i for i, nm in enumerate(names)}
        self.rel = {}             # generator index of iDk -> polynomial D_k (ring element) with iDk * D_k == 1
        self._rel_by_poly = {}
        self.scale = Sc(self.gens["SCALE"], self)
        self.zero = Sc(self.K(0), self)
        self.one = Sc(self.K(1), self)

    def sym(self, name):
        return Sc(self.gens[name], self)

    def vec(self, prefix, n):
        return arr([self.sym(f"{prefix}{i}") for i in range(n)])

    def mat(self, prefix, r, c_):
        return arr([[self.sym(f"{prefix}{i}_{j}") for j in range(c_)] for i in range(r)])

    def const(self, q):
        return Sc(self.lift(q), self)

    # -- reciprocal generators: iDk stands for 1 / D_k, D_k a polynomial free of every iD ---------------------------
    def reciprocal(self, D):
        """Field element standing for 1/D (D: non-zero ring element without iD generators)."""
        if not self.lazy or D.is_ground:
            return self.K.new(self.K.ring(1), D)
        if self._has_den_gen(D):
            raise Unsupported("reciprocal of a polynomial that involves a reciprocal generator")
        c = D.LC
        Dm = D.quo_ground(c)                     # monic representative: 1/D = (1/c) * iD
        gi = self._rel_by_poly.get(Dm)
        if gi is None:
            if len(self.rel) >= self.NDEN:
                raise Unsupported("more distinct linear systems than reciprocal generators (raise FieldCtx.NDEN)")
            gi = self.index[self.den_names[len(self.rel)]]
            self.rel[gi] = Dm
            self._rel_by_poly[Dm] = gi
        return self.K.new(self.K.ring.gens[gi].mul_ground(QQ(1) / c), self.K.ring(1))

    def _has_den_gen(self, p):
        ids = [self.index[nm] for nm in self.den_names]
        return any(m[i] for m in p.keys() for i in ids)

    def is_zero(self, v):
        """Exact zero test of a field element modulo the relations iDk * D_k == 1."""
        if v == 0:
            return True
        if not self.rel:
            return False
        num = v.numer
        ids = sorted(self.rel)
        if self._has_den_gen(v.denom):
            raise Unsupported("reciprocal generator in a denominator")
        deg = [max(m[i] for m in num.keys()) for i in ids]
        if not any(deg):
            return False
        # num = sum_J c_J(gens) * prod_k iDk^{J_k};  multiply by prod_k D_k^{deg_k}:  sum_J c_J * prod_k D_k^{deg_k - J_k}
        R = self.K.ring
        groups = {}
        for m, c in num.items():
            J = tuple(m[i] for i in ids)
            mm = list(m)
            for i in ids:
                mm[i] = 0
            groups.setdefault(J, {})[tuple(mm)] = c
        pows = {}

        def power(k, e):
            if (k, e) not in pows:
                pows[(k, e)] = self.rel[ids[k]] ** e
            return pows[(k, e)]
        total = R(0)
        for J, d in groups.items():
            term = R.from_dict(d)
            for k, (dk, jk) in enumerate(zip(deg, J)):
                if dk - jk:
                    term = term * power(k, dk - jk)
            total = total + term
        return total == 0

    def lift(self, o):
        """Exact conversion of a Python / NumPy number into the field (None if `o` is not a number)."""
        if isinstance(o, Sc):
            if o.F is not self:
                raise Unsupported("scalars of two different Mode-B fields were mixed")
            return o.v
        if isinstance(o, (bool, _np.bool_)):
            raise Unsupported("bool used as a number in Mode B")
        if isinstance(o, (int, _np.integer)):
            return self.K(int(o))
        if isinstance(o, (float, _np.floating)):
            f = float(o)
            if f != f or f in (float("inf"), float("-inf")):
                raise Unsupported("non-finite float met in Mode B")
            fr = Fraction(f)          # exact: every float is a dyadic rational
            return self.K(QQ(fr.numerator, fr.denominator))
        if isinstance(o, Fraction):
            return self.K(QQ(o.numerator, o.denominator))
        if isinstance(o, _FracElement) and o.field == self.K:
            return o
        return None


def names_vec(prefix, n):
    return [f"{prefix}{i}" for i in range(n)]


def names_mat(prefix, r, c_):
    return [f"{prefix}{i}_{j}" for i in range(r) for j in range(c_)]


class Sc:
    """Exact scalar: an element of FieldCtx.K.  Immutable."""
    __slots__ = ("v", "F")

    def __init__(self, v, F):
        self.v = v
        self.F = F

    def _o(self, o):
        return self.F.lift(o)

    def __add__(self, o):
        w = self._o(o)
        return NotImplemented if w is None else Sc(self.v + w, self.F)
    __radd__ = __add__

    def __sub__(self, o):
        w = self._o(o)
        return NotImplemented if w is None else Sc(self.v - w, self.F)

    def __rsub__(self, o):
        w = self._o(o)
        return NotImplemented if w is None else Sc(w - self.v, self.F)

    def __mul__(self, o):
        w = self._o(o)
        return NotImplemented if w is None else Sc(self.v * w, self.F)
    __rmul__ = __mul__

    def __truediv__(self, o):
        w = self._o(o)
        if w is None:
            return NotImplemented
        if self.F.is_zero(w):
            raise ZeroDivisionError("division by an identically zero Mode-B scalar")
        return Sc(self.v / w, self.F)

    def __rtruediv__(self, o):
        w = self._o(o)
        if w is None:
            return NotImplemented
        if self.F.is_zero(self.v):
            raise ZeroDivisionError("division by an identically zero Mode-B scalar")
        return Sc(w / self.v, self.F)

    def __pow__(self, e):
        if isinstance(e, Sc):
            if e.v.denom == 1 and e.v.numer.is_ground:
                e = Fraction(int(e.v.numer.LC.numerator), int(e.v.numer.LC.denominator)) if e.v != 0 else 0
            else:
                raise Unsupported("symbolic exponent")
        if isinstance(e, (float, _np.floating, Fraction)):
            if e != int(e):
                raise Unsupported(f"non-integer exponent {e!r}")
            e = int(e)
        if not isinstance(e, (int, _np.integer)):
            return NotImplemented
        e = int(e)
        if e < 0 and self.F.is_zero(self.v):
            raise ZeroDivisionError("negative power of zero")
        return Sc(self.v ** e, self.F)

    def __neg__(self):
        return Sc(-self.v, self.F)

    def __pos__(self):
        return self

    def __eq__(self, o):
        w = self._o(o)
        return False if w is None else self.F.is_zero(self.v - w)

    def __ne__(self, o):
        return not self.__eq__(o)

    def __hash__(self):
        return hash(self.v)

    def _cmp(self, o, op):
        """order comparisons are decided exactly when both sides are constants of the field (float operands such as EPS are exact
        binary rationals); otherwise they depend on the values of the symbols and Mode B never forks"""
        from fractions import Fraction
        a = self.const_value()
        if isinstance(o, Sc):
            b = o.const_value()
        elif isinstance(o, (int, float, Fraction)) and o == o and o not in (float("inf"), float("-inf")):
            b = Fraction(o)
        else:
            b = None
        if a is None or b is None:
            raise Unsupported("order comparison of symbolic Mode-B scalars (Mode B never forks)")
        return op(Fraction(a), b)

    def __lt__(self, o): return self._cmp(o, lambda a, b: a < b)
    def __le__(self, o): return self._cmp(o, lambda a, b: a <= b)
    def __gt__(self, o): return self._cmp(o, lambda a, b: a > b)
    def __ge__(self, o): return self._cmp(o, lambda a, b: a >= b)

    def __bool__(self):
        return not self.F.is_zero(self.v)

    def __float__(self):
        raise Unsupported("float() of a Mode-B scalar")

    def __abs__(self):
        """Exact |.| of a CONSTANT of the field; the sign of a non-constant rational function is not decidable."""
        q = self.const_value()
        if q is None:
            raise Unsupported("abs() of a non-constant Mode-B scalar: its sign is not decidable for all values of the symbols "
                              "(Mode B never forks)")
        return self if q >= 0 else Sc(-self.v, self.F)

    def __repr__(self):
        return str(self.v)

    def is_zero(self):
        return self.F.is_zero(self.v)

    def const_value(self):
        """The Fraction this scalar equals if it is a constant of the field (no generator occurs; or identically zero modulo the
        reciprocal relations), else None."""
        return const_of(self.F, self.v)

    def diff(self, name):
        """Partial derivative w.r.t. a generator on which no reciprocal relation depends."""
        i = self.F.index[name]
        if any(m[i] for D in self.F.rel.values() for m in D.keys()):
            raise Unsupported("diff w.r.t. a generator occurring in a solved system")
        return Sc(self.v.diff(self.F.gens[name]), self.F)


def arr(x):
    """dtype=object ndarray of an (nested) list of scalars."""
    a = _np.empty(_shape(x), dtype=object)
    if a.ndim == 1:
        for i, e in enumerate(x):
            a[i] = e
    elif a.ndim == 2:
        for i, r in enumerate(x):
            for j, e in enumerate(r):
                a[i, j] = e
    else:
        raise Unsupported("arr: 1-D / 2-D only")
    return a


def _shape(x):
    if isinstance(x, (list, tuple)):
        if len(x) and isinstance(x[0], (list, tuple)):
            return (len(x), len(x[0]))
        return (len(x),)
    raise Unsupported("arr: list expected")


def lift_array(F, a):
    """Copy of `a` (numbers / Sc, any shape) with every entry an Sc of F."""
    a = _np.asarray(a, dtype=object)
    out = _np.empty(a.shape, dtype=object)
    for idx in _np.ndindex(a.shape):
        w = F.lift(a[idx])
        if w is None:
            raise Unsupported(f"non-numeric array entry {a[idx]!r}")
        out[idx] = Sc(w, F)
    return out


def all_zero(F, a):
    """(ok, first non-zero entry description) for an array / scalar difference."""
    a = _np.asarray(a, dtype=object)
    for idx in _np.ndindex(a.shape):
        w = F.lift(a[idx])
        if w is None:
            raise Unsupported(f"non-numeric entry {a[idx]!r} in a Mode-B residual")
        if not F.is_zero(w):
            return False, f"residual{list(idx)} = {short(w)}"
    return True, None


def same(F, x, y):
    """Decide x == y entrywise (shapes must agree)."""
    x = _np.asarray(x, dtype=object)
    y = _np.asarray(y, dtype=object)
    if x.shape != y.shape:
        return False, f"shape {x.shape} != {y.shape}"
    return all_zero(F, x - y) if x.size else (True, None)


def short(v, k=260):
    s = str(v)
    return s if len(s) <= k else s[:k] + "..."


# ---------------------------------------------------------------------------------------------------------
# exact decisions on scalars: constants, truth values, closeness
# ---------------------------------------------------------------------------------------------------------
RTOL_DEFAULT = Fraction(1, 10 ** 5)      # numpy's defaults rtol=1e-05, atol=1e-08 of isclose / allclose, as exact rationals
ATOL_DEFAULT = Fraction(1, 10 ** 8)


def const_of(F, v):
    """Fraction equal to the field element v if v is a constant (ground numerator and denominator, or identically zero modulo
    the reciprocal relations), else None."""
    if v == 0:
        return Fraction(0)
    if v.numer.is_ground and v.denom.is_ground:
        a, b = v.numer.LC, v.denom.LC
        return Fraction(int(a.numerator), int(a.denominator)) / Fraction(int(b.numerator), int(b.denominator))
    if F.is_zero(v):
        return Fraction(0)
    return None


def truth(a):
    """bool array of the exact truth values of the entries of `a`: an Sc is true iff it is not identically zero."""
    a = _np.asarray(a, dtype=object)
    out = _np.empty(a.shape, dtype=bool)
    for idx in _np.ndindex(a.shape):
        e = a[idx]
        out[idx] = (not e.is_zero()) if isinstance(e, Sc) else bool(e)
    return out


def _tolerance(F, t, default, what):
    if t is None:
        return default
    w = F.lift(t)
    q = None if w is None else const_of(F, w)
    if q is None:
        raise Unsupported(f"np.isclose: {what} is not a constant number")
    return q


def close(F, x, y, rtol=None, atol=None):
    """Exact decision of numpy's closeness test  |x - y| <= atol + rtol * |y|  for numbers / Sc of F.

    Identically equal operands are close whatever they are.  Otherwise the test is decided only when it does not depend on the
    symbols (x - y and y constants of the field); a comparison involving a non-constant rational function has no truth value
    that holds for all values of the symbols and Mode B never forks: Unsupported (an engine gap, not a property violation).
    Tolerances given as floats are converted exactly like every other float; the defaults are 1/10^5 and 1/10^8."""
    rt = _tolerance(F, rtol, RTOL_DEFAULT, "rtol")
    at = _tolerance(F, atol, ATOL_DEFAULT, "atol")
    wx, wy = F.lift(x), F.lift(y)
    if wx is None or wy is None:
        raise Unsupported(f"np.isclose: non-numeric operand {x!r} / {y!r}")
    d = wx - wy
    if F.is_zero(d):
        return True
    qd, qy = const_of(F, d), const_of(F, wy)
    if qd is None or qy is None:
        raise Unsupported("np.isclose / np.allclose on a non-constant Mode-B scalar: |a - b| <= atol + rtol * |b| is not decidable "
                          "for all values of the symbols (Mode B never forks): " + short(wx, 80) + " vs " + short(wy, 80))
    return abs(qd) <= at + rt * abs(qy)


# ---------------------------------------------------------------------------------------------------------
# numpy proxy
# ---------------------------------------------------------------------------------------------------------
class _NormMarker:
    """Opaque result of np.linalg.norm on a symbolic array; only np.max(<marker>, initial=...) may consume it."""

    def __init__(self, src):
        self.src = src


def _ctx_of(a):
    for e in _np.asarray(a, dtype=object).flat:
        if isinstance(e, Sc):
            return e.F
    return None


def _sc_ctx(a):
    """Field of the first Sc found in `a` (scalar, array or nested list); None for purely numeric arguments."""
    if isinstance(a, Sc):
        return a.F
    if a is None or isinstance(a, (bool, int, float, _np.generic)) or (isinstance(a, _np.ndarray) and a.dtype != object):
        return None
    return _ctx_of(a)


def _has_sc(a):
    return _sc_ctx(a) is not None


class _LinalgProxy:
    def __getattr__(self, name):
        return getattr(_np.linalg, name)

    def norm(self, x, *a, **kw):
        if isinstance(x, _np.ndarray) and x.dtype == object and _ctx_of(x) is not None:
            return _NormMarker(x)
        return _np.linalg.norm(x, *a, **kw)


class NPProxy:
    """Forwards to numpy; array constructors default to dtype=object."""
    linalg = _LinalgProxy()

    def __getattr__(self, name):
        return getattr(_np, name)

    @staticmethod
    def _dt(dtype):
        return object if dtype is None or dtype is float else dtype

    def asarray(self, a, dtype=None, **kw):
        """numpy.asarray returns its argument itself when it already is an array of the requested type - callers that then write
        in place modify the caller's data.  The exact arrays (dtype=object) play the role of float arrays here."""
        if isinstance(a, _np.ndarray) and a.dtype == object and (dtype is None or dtype is float):
            return a
        return _np.asarray(a, dtype=self._dt(dtype), **kw)

    def array(self, a, dtype=None, **kw):
        return _np.array(a, dtype=self._dt(dtype), **kw)

    def empty(self, shape, dtype=None, **kw):
        return _np.empty(shape, dtype=self._dt(dtype), **kw)

    def zeros(self, shape, dtype=None, **kw):
        return _np.zeros(shape, dtype=self._dt(dtype), **kw)

    def ones(self, shape, dtype=None, **kw):
        return _np.ones(shape, dtype=self._dt(dtype), **kw)

    def full(self, shape, fill_value, dtype=None, **kw):
        return _np.full(shape, fill_value, dtype=self._dt(dtype), **kw)

    def eye(self, N, M=None, k=0, dtype=None, **kw):
        return _np.eye(N, M, k, dtype=self._dt(dtype), **kw)

    def zeros_like(self, a, dtype=None, **kw):
        return _np.zeros_like(a, dtype=self._dt(dtype), **kw)

    def max(self, a, *args, **kw):
        if isinstance(a, _NormMarker):
            if "initial" not in kw or args or set(kw) - {"initial"}:
                raise Unsupported("np.max of a symbolic norm vector in an unexpected form")
            return _ctx_of(a.src).scale
        return _np.max(a, *args, **kw)

    # -- exact truth values / closeness of arrays holding Sc scalars (plain numeric arguments are forwarded to numpy) -------
    def any(self, a, *args, **kw):
        """True iff some entry is not identically zero (decided exactly by FieldCtx.is_zero)."""
        return _np.any(truth(a) if _has_sc(a) else a, *args, **kw)

    def all(self, a, *args, **kw):
        return _np.all(truth(a) if _has_sc(a) else a, *args, **kw)

    def count_nonzero(self, a, *args, **kw):
        return _np.count_nonzero(truth(a) if _has_sc(a) else a, *args, **kw)

    def abs(self, x, *args, **kw):
        """Entrywise Sc.__abs__ (exact for constants, Unsupported for a non-constant entry)."""
        if isinstance(x, Sc):
            return abs(x)
        return _np.abs(x, *args, **kw)
    absolute = abs

    def isclose(self, a, b, rtol=None, atol=None, equal_nan=False):
        F = _sc_ctx(a) or _sc_ctx(b) or _sc_ctx(rtol) or _sc_ctx(atol)
        if F is None:
            return _np.isclose(a, b, rtol=1e-5 if rtol is None else rtol, atol=1e-8 if atol is None else atol, equal_nan=equal_nan)
        A, B = _np.broadcast_arrays(_np.asarray(a, dtype=object), _np.asarray(b, dtype=object))
        out = _np.empty(A.shape, dtype=bool)
        for idx in _np.ndindex(A.shape):
            out[idx] = close(F, A[idx], B[idx], rtol, atol)
        return out if out.ndim else _np.bool_(out[()])

    def allclose(self, a, b, rtol=None, atol=None, equal_nan=False):
        return bool(_np.all(self.isclose(a, b, rtol=rtol, atol=atol, equal_nan=equal_nan)))


def _eigh_stub(a, *args, **kw):
    return None, None


# ---------------------------------------------------------------------------------------------------------
# exact inverse over the field, fraction-free
# ---------------------------------------------------------------------------------------------------------
def _int_poly_matrix(F, rows):
    """rows (field elements) -> (small ZZ polynomial ring, P = diag(D) * rows as lists over it, D (ring elements of F), up).

    Row i is multiplied by D_i = lcm of its denominators times the lcm of the coefficient denominators, so that P has integer
    polynomial entries; only the generators that actually occur are kept in the small ring (integer coefficients are much
    faster than QQ without gmpy).  `up` converts a small-ring polynomial back into F's ring."""
    from sympy import ZZ
    from sympy.polys.rings import PolyRing
    from math import lcm
    R = F.K.ring
    used = [False] * R.ngens

    def mark(p):
        for mon in p.keys():
            for i, e in enumerate(mon):
                if e:
                    used[i] = True
    D, P = [], []
    for r in rows:
        d = R(1)
        for e in r:
            if e.denom != 1:
                d = d.lcm(e.denom)
        pr = [e.numer * d.exquo(e.denom) for e in r]
        c = 1
        for q in pr:
            for co in q.values():
                c = lcm(c, int(co.denominator))
        if c != 1:
            d = d.mul_ground(QQ(c))
            pr = [q.mul_ground(QQ(c)) for q in pr]
        D.append(d)
        P.append(pr)
        mark(d)
        for q in pr:
            mark(q)
    idx = [i for i, u in enumerate(used) if u] or [0]
    small = PolyRing([R.symbols[i] for i in idx], ZZ)

    def down(p):
        return small.from_dict({tuple(m[i] for i in idx): ZZ(int(c.numerator)) for m, c in p.items()})

    def up(p):
        out = {}
        for m, c in p.items():
            full = [0] * R.ngens
            for i, e in zip(idx, m):
                full[i] = e
            out[tuple(full)] = QQ(int(c))
        return R.from_dict(out)
    return small, [[down(q) for q in pr] for pr in P], D, up


def exact_inverse(F, rows, check=True):
    """Inverse (list of lists of field elements) of a square matrix of field elements.

    Fraction-free: P = diag(D) A has integer polynomial entries (see _int_poly_matrix), sympy's DomainMatrix.inv_den gives
    P^-1 = Num / den in that ring, and A^-1 = Num diag(D) / den.  `check`: verify P Num == den I in the ring.
    den = mono * D' with mono the monomial content; 1/D' becomes a reciprocal generator (FieldCtx.reciprocal) so that all later
    arithmetic stays polynomial, the monomial part (powers of SCALE) is cancelled right here."""
    R = F.K.ring
    N = len(rows)
    small, P, D, up = _int_poly_matrix(F, rows)
    dm = DomainMatrix(P, (N, N), small.to_domain())
    try:
        num, den = dm.inv_den()
    except CaseTimeout:
        raise
    except Exception as e:  # DMNonInvertibleMatrixError
        raise SingularSystem(f"the matrix returned by build_system is singular ({type(e).__name__})")
    if den == 0:
        raise SingularSystem("the matrix returned by build_system is singular (zero determinant)")
    if check:
        prod = dm * num
        eye = DomainMatrix.eye(N, small.to_domain()) * den
        if prod.to_dense() != eye.to_dense():
            raise Unsupported("exact_inverse: DomainMatrix.inv_den returned a wrong inverse")
    numl = num.to_dense().rep.to_list() if hasattr(num.to_dense().rep, "to_list") else num.to_dense().rep
    den_up = up(den)
    mono_exp = [min(m[i] for m in den_up.keys()) for i in range(R.ngens)]
    mono = R.from_dict({tuple(mono_exp): QQ(1)})
    rec = F.reciprocal(den_up.exquo(mono))
    return [[F.K.new(up(numl[i][j]) * D[j], mono) * rec for j in range(N)] for i in range(N)]


# ---------------------------------------------------------------------------------------------------------
# shadow module with the SOLVE contract
# ---------------------------------------------------------------------------------------------------------
class Shadow:
    """One private copy of cobyqa.models with np / eigh / Quadratic.solve_systems replaced (see module docstring)."""

    def __init__(self, ill=False, check_inverse=True):
        ensure_repo_on_path()
        import cobyqa  # noqa: F401  (from $REPO)
        root = os.path.abspath(repo_root())
        if not os.path.abspath(cobyqa.__file__).startswith(root):
            raise RuntimeError(f"cobyqa imported from {cobyqa.__file__}, not from {root}")
        path = os.path.join(os.path.dirname(cobyqa.__file__), "models.py")
        with open(path) as fh:
            src = fh.read()
        m = types.ModuleType("cobyqa.models__modeb")
        m.__package__ = "cobyqa"
        m.__file__ = path
        exec(compile(src, path, "exec"), m.__dict__)
        self.real_solve_systems = m.Quadratic.__dict__["solve_systems"]
        m.np = NPProxy()
        m.eigh = _eigh_stub
        self.m = m
        self.ill = ill                   # bool, or callable(call_index) -> bool
        self.check_inverse = check_inverse
        self.ncalls = 0
        self.solve_s = 0.0
        self._inv_cache = {}
        self.update_log = []             # ghost: id()s of the Quadratic objects whose update() ran
        m.Quadratic.solve_systems = staticmethod(self._solve)
        real_update = m.Quadratic.update
        log = self.update_log

        def update(self_, *a, **kw):          # ghost "updated" flag; the real body runs unchanged
            log.append(id(self_))
            return real_update(self_, *a, **kw)
        update.__wrapped__ = real_update
        m.Quadratic.update = update
        from cobyqa.settings import Options
        self.Options = Options

    # -- the SOLVE contract -------------------------------------------------------------------------------
    def scaled_inverse(self, interpolation):
        """H = R a^-1 R, exact, with (a, R) from the REAL build_system.  Returns (H as ndarray of Sc, F)."""
        a, right_scaling, _eig = self.m.build_system(interpolation)
        F = _ctx_of(a) or _ctx_of(right_scaling)
        if F is None:
            raise Unsupported("SOLVE: build_system returned a purely numeric matrix")
        N = a.shape[0]
        if a.shape != (N, N) or right_scaling.shape != (N,):
            raise SingularSystem(f"build_system returned shapes {a.shape}, {right_scaling.shape}")
        rows = [[F.lift(a[i, j]) for j in range(N)] for i in range(N)]
        rs = [F.lift(right_scaling[i]) for i in range(N)]
        if any(x is None for r in rows for x in r) or any(x is None for x in rs):
            raise Unsupported("SOLVE: non-numeric entry in the system built by build_system")
        key = (tuple(tuple(r) for r in rows), tuple(rs))
        H = self._inv_cache.get(key)
        if H is None:
            t0 = time.time()
            inv = exact_inverse(F, rows, check=self.check_inverse)
            H = _np.empty((N, N), dtype=object)
            for i in range(N):
                for j in range(N):
                    H[i, j] = Sc(rs[i] * inv[i][j] * rs[j], F)
            self._inv_cache[key] = H
            self.solve_s += time.time() - t0
        return H, F

    def _solve(self, interpolation, rhs):
        n, npt = interpolation.xpt.shape
        assert rhs.ndim == 2 and rhs.shape[0] == npt + n + 1, "The shape of `rhs` is not valid."
        H, F = self.scaled_inverse(interpolation)
        sol = H @ lift_array(F, rhs)
        k = self.ncalls
        self.ncalls += 1
        ill = self.ill(k) if callable(self.ill) else self.ill
        return sol, _np.bool_(bool(ill))

    # -- hand-built objects ----------------------------------------------------------------------------------
    def interpolation(self, x_base, xpt):
        it = self.m.Interpolation.__new__(self.m.Interpolation)
        it._debug = False
        it._x_base = x_base
        it._xpt = xpt
        it._lhs_cache = None
        return it

    def quadratic_state(self, F, prefix, n, npt):
        """A Quadratic in an ARBITRARY state: symbolic const, gradient, implicit Hessian, symmetric explicit Hessian."""
        q = self.m.Quadratic.__new__(self.m.Quadratic)
        q._debug = False
        q._const = F.sym(prefix + "c")
        q._grad = F.vec(prefix + "g", n)
        q._i_hess = F.vec(prefix + "l", npt)
        q._e_hess = arr([[F.sym(f"{prefix}E{min(i, j)}_{max(i, j)}") for j in range(n)] for i in range(n)])
        return q

    @staticmethod
    def quadratic_state_names(prefix, n, npt):
        return ([prefix + "c"] + names_vec(prefix + "g", n) + names_vec(prefix + "l", npt)
                + [f"{prefix}E{i}_{j}" for i in range(n) for j in range(i, n)])

    def models(self, interp, fun_val, cub_val, ceq_val, fun, cub, ceq):
        M = self.m.Models.__new__(self.m.Models)
        M._debug = False
        M._interpolation = interp
        M._fun_val, M._cub_val, M._ceq_val = fun_val, cub_val, ceq_val
        M._fun = fun
        M._cub = _np.empty(len(cub), dtype=object)
        M._ceq = _np.empty(len(ceq), dtype=object)
        for i, q in enumerate(cub):
            M._cub[i] = q
        for i, q in enumerate(ceq):
            M._ceq[i] = q
        return M

    def options(self):
        return {self.Options.DEBUG: False}


# ---------------------------------------------------------------------------------------------------------
# independent specification: Powell's KKT matrix of the least-Frobenius-norm interpolation problem
# ---------------------------------------------------------------------------------------------------------
def kkt_matrix(F, X):
    """W = [[0.5 (X^T X)^{.2}, e, X^T], [e^T, 0, 0], [X, 0, 0]],  X = (n, npt) displacements from the base point.

    Written from the statement (Powell 2004/2006), entry by entry, without NumPy linear algebra."""
    n, npt = X.shape
    N = npt + n + 1
    half = F.lift(Fraction(1, 2))
    W = [[F.K(0)] * N for _ in range(N)]
    for i in range(npt):
        for j in range(npt):
            d = F.K(0)
            for t in range(n):
                d = d + F.lift(X[t, i]) * F.lift(X[t, j])
            W[i][j] = half * d * d
        W[i][npt] = F.K(1)
        W[npt][i] = F.K(1)
        for t in range(n):
            W[i][npt + 1 + t] = F.lift(X[t, i])
            W[npt + 1 + t][i] = F.lift(X[t, i])
    return W


def det(F, W):
    """Exact determinant (field element) of a square matrix of field elements.

    Fraction-free (Bareiss over an integer polynomial ring, see _int_poly_matrix): det A = det(diag(D) A) / prod D_i.  Rows
    and columns are first permuted by the SAME permutation (determinant unchanged) so that the numerically simple
    rows/columns are eliminated first."""
    N = len(W)
    weight = [max(max(len(W[i][j].numer), len(W[j][i].numer)) for j in range(N)) for i in range(N)]
    perm = sorted(range(N), key=lambda i: (weight[i], i))
    small, P, D, up = _int_poly_matrix(F, [[W[i][j] for j in perm] for i in perm])
    d = DomainMatrix(P, (N, N), small.to_domain()).det()
    den = F.K.ring(1)
    for x in D:
        den = den * x
    return F.K.new(up(d), den)


def spec_solve(F, W, rhs):
    """Exact solution (list of field elements) of W z = rhs; raises SingularSystem if W is singular (set not poised)."""
    N = len(W)
    try:
        inv = exact_inverse(F, W, check=False)
    except SingularSystem:
        raise SingularSystem("specification KKT matrix singular: interpolation set not poised")
    out = []
    for i in range(N):
        acc = F.K(0)
        for j in range(N):
            w = F.lift(rhs[j])
            if w != 0:
                acc = acc + inv[i][j] * w
        out.append(acc)
    return out


def spec_quadratic(F, X, x_base, lam, c, g, x):
    """Value at the absolute point x of  c + g.(x-xb) + 0.5 sum_k lam_k ((x_k).(x-xb))^2  (plain loops)."""
    n, npt = X.shape
    d = [F.lift(x[t]) - F.lift(x_base[t]) for t in range(n)]
    v = c
    for t in range(n):
        v = v + g[t] * d[t]
    half = F.lift(Fraction(1, 2))
    for k in range(npt):
        p = F.K(0)
        for t in range(n):
            p = p + F.lift(X[t, k]) * d[t]
        v = v + half * lam[k] * p * p
    return v


# ---------------------------------------------------------------------------------------------------------
# sampled generic rational geometry
# ---------------------------------------------------------------------------------------------------------
def rng_for(label):
    return random.Random((SEED << 32) ^ zlib.crc32(label.encode()))


def rand_q(rng, num=9, den=4):
    return Fraction(rng.randint(-num, num), rng.randint(1, den))


def rational_geometry(label, n, npt, tries=200):
    """Generic (poised: det W != 0) rational interpolation set: (x_base list, xpt list-of-rows) of Fractions."""
    rng = rng_for("geom:" + label)
    Fq = FieldCtx([])
    for _ in range(tries):
        xb = [rand_q(rng) for _ in range(n)]
        X = [[rand_q(rng) for _ in range(npt)] for _ in range(n)]
        Xa = lift_array(Fq, X)
        if det(Fq, kkt_matrix(Fq, Xa)) != 0:
            return xb, X
    raise Unsupported(f"no poised rational geometry found for {label}")


def geometry_names(n, npt, symbolic):
    return names_vec("b", n) + names_mat("p", n, npt) if symbolic else []


def geometry(F, label, n, npt, symbolic):
    """(x_base, xpt) as object arrays of Sc: all entries symbols (b_i, p_i_k) or a seeded generic rational sample."""
    if symbolic:
        return F.vec("b", n), F.mat("p", n, npt)
    xb, X = rational_geometry(label, n, npt)
    return lift_array(F, xb), lift_array(F, X)


def rational_vector(label, n):
    rng = rng_for("vec:" + label)
    return [rand_q(rng) for _ in range(n)]


def fractions_of(a):
    """Nested list of the Fractions held by an array of numbers / CONSTANT Sc scalars."""
    def one(e):
        q = e.const_value() if isinstance(e, Sc) else Fraction(e)
        if q is None:
            raise Unsupported("fractions_of: non-constant Mode-B scalar")
        return q
    a = _np.asarray(a, dtype=object)
    return [one(e) for e in a] if a.ndim == 1 else [[one(e) for e in r] for r in a]


def rational_new_point(label, x_base, xpt, k, scale=1, tries=200):
    """Seeded generic rational ABSOLUTE point x_new (list of Fractions) such that the rational interpolation set (x_base, xpt)
    with point k replaced by x_new is still poised (det W != 0); x_new - x_base is `scale` times a small generic rational."""
    xb, X = fractions_of(x_base), fractions_of(xpt)
    n = len(xb)
    rng = rng_for("newpoint:" + label)
    Fq = FieldCtx([])
    for _ in range(tries):
        d = [rand_q(rng) * scale for _ in range(n)]
        Xn = [[d[t] if j == k else X[t][j] for j in range(len(X[t]))] for t in range(n)]
        if det(Fq, kkt_matrix(Fq, lift_array(Fq, Xn))) != 0:
            return [xb[t] + d[t] for t in range(n)]
    raise Unsupported(f"no rational point keeping the set poised found for {label}")


# ---------------------------------------------------------------------------------------------------------
# case runner
# ---------------------------------------------------------------------------------------------------------
class time_limit:
    def __init__(self, secs):
        self.secs = max(1, int(secs))

    def _raise(self, *a):
        raise CaseTimeout()

    # budgets are in CPU seconds of this process (ITIMER_PROF), not wall-clock: a verdict must not depend on how busy the machine is
    def __enter__(self):
        self.old = signal.signal(signal.SIGPROF, self._raise)
        signal.setitimer(signal.ITIMER_PROF, float(self.secs))

    def __exit__(self, *a):
        signal.setitimer(signal.ITIMER_PROF, 0.0)
        signal.signal(signal.SIGPROF, self.old)
        return False


_SELFTEST_DONE = False


def selftest():
    """Negative / positive controls of the decision procedure itself (run once per process; failure = engine error)."""
    global _SELFTEST_DONE
    if _SELFTEST_DONE:
        return
    F = FieldCtx(["u", "w"], lazy=True)
    u, w = F.gens["u"], F.gens["w"]
    D1 = (u * u + 3 * w + 1).numer
    D2 = (u - w * w).numer * 5
    r1, r2 = F.reciprocal(D1), F.reciprocal(D2)
    e1, e2 = F.K.new(D1, F.K.ring(1)), F.K.new(D2, F.K.ring(1))
    yes = [r1 * e1 - 1, r1 * r1 * e1 * e1 + r1 * e1 - 2, r1 * r2 * e1 * e2 - 1, (u * r1 + w * r2) * e1 * e2 - (u * e2 + w * e1),
           F.lift(0.5) * 2 - 1, (F.sym("u") ** 2.0).v - u * u, (1.0 / F.scale ** 2.0 * F.scale * F.scale).v - 1]
    no = [r1 * e1 - 2, r1 - r2, r1 * r2 * e1 - 1, r1 * e2 - 1, u * r1 - w * r1, F.lift(0.5) - F.lift(Fraction(1, 3))]
    if not all(F.is_zero(x) for x in yes) or any(F.is_zero(x) for x in no):
        raise Unsupported("modeb self-test failed: FieldCtx.is_zero is wrong")
    a = arr([F.sym("u"), 2.0, 0])
    if not ((a * 0.5)[1] == 1 and (a @ a) == F.sym("u") * F.sym("u") + 4 and not (a[0] == a[1])):
        raise Unsupported("modeb self-test failed: Sc arithmetic inside object arrays is wrong")
    inv = exact_inverse(F, [[u, F.K(1)], [F.K(2), w / u]], check=True)
    ok = F.is_zero(u * inv[0][0] + inv[1][0] - 1) and F.is_zero(u * inv[0][1] + inv[1][1]) \
        and F.is_zero(2 * inv[0][1] + w / u * inv[1][1] - 1) and F.is_zero(det(F, [[u, F.K(1)], [F.K(2), w / u]]) - (w - 2))
    if not ok:
        raise Unsupported("modeb self-test failed: exact_inverse / det")
    # exact truth values, abs and closeness (NPProxy.any / all / abs / isclose / allclose)
    P = NPProxy()
    su, z = F.sym("u"), F.sym("u") - F.sym("u")
    tiny, small = F.const(Fraction(1, 10 ** 9)), F.const(Fraction(1, 10 ** 7))

    def undecidable(fn):
        try:
            fn()
        except Unsupported:
            return True
        return False
    ok = (not P.any(arr([0, z, 0.0])) and P.any(arr([0, z, su])) and P.all(arr([1, su])) and not P.all(arr([su, z]))
          and abs(F.const(Fraction(-3, 2))) == Fraction(3, 2) and P.abs(arr([-2, F.const(-1)]))[1] == 1 and abs(z) == 0
          and bool(P.isclose(tiny, 0.0)) and not bool(P.isclose(small, 0.0)) and not bool(P.isclose(-small, 0.0))
          and bool(P.isclose(F.const(10 ** 6 + 1), 10 ** 6)) and not bool(P.isclose(F.const(10 ** 6 + 11), 10 ** 6))
          and bool(P.isclose(F.const(Fraction(1, 10 ** 8)), 0.0)) and not bool(P.isclose(F.const(Fraction(1, 10 ** 8) + Fraction(1, 10 ** 30)), 0.0))
          and bool(P.isclose(su, su + z)) and P.allclose(arr([su, tiny]), arr([su, 0])) and not P.allclose(arr([su, small]), arr([su, 0]))
          and list(P.isclose(arr([tiny, small]), 0.0)) == [True, False] and bool(P.isclose(small, 0.0, atol=1e-6))
          and undecidable(lambda: P.isclose(su, 0.0)) and undecidable(lambda: abs(su)) and undecidable(lambda: P.allclose(arr([su]), arr([su + 1])))
          and bool(P.isclose(1.0, 1.0 + 1e-9)) and not bool(P.any(_np.zeros(2))))
    if not ok:
        raise Unsupported("modeb self-test failed: exact any / all / abs / isclose")
    _SELFTEST_DONE = True


class Cases:
    """Runs the cases of one unit, turning each decided identity into one bounded obligation.

    * a check that raises inside the code under test (or SingularSystem) is a FAILED obligation, not an engine error;
    * a case exceeding its budget is skipped (reported on stderr); a *required* case that times out is an engine error,
      so that a run can never pass by skipping everything."""

    def __init__(self, c, unit, budget_s=50.0):
        self.c = c
        self.unit = unit
        Shadow()                  # warm-up (imports cobyqa / scipy / sympy.polys) outside of every case budget
        selftest()
        self.t_end = time.process_time() + budget_s * (6 if THOROUGH else 1)          # CPU seconds, see time_limit
        self.skipped = []
        self.timings = []

    def emit(self, name, ok, note=None, props=None):
        import z3
        info = {"kind": "bounded"}
        if not ok and note:
            info["note"] = note
        if props:
            info["props"] = props
        self.c.oblige(name, z3.BoolVal(bool(ok)), **info)
        if not ok:
            # keep later obligations independent of this failed one (oblige() assumes the goal afterwards)
            if self.c.pc and z3.is_false(self.c.pc[-1]):
                self.c.pc.pop()

    def run(self, label, fn, per_case_s=20.0, required=False):
        """fn(emit) performs the case and calls emit(name, ok, note) for each obligation of the case."""
        remaining = self.t_end - time.process_time()
        lim = min(per_case_s * (6 if THOROUGH else 1), remaining)
        if lim < 1:
            if required:
                raise Unsupported(f"required Mode-B case {label} did not get any time (unit budget exhausted)")
            self.skipped.append(label)
            print(f"# modeb: {self.unit.name}: case {label} skipped (unit budget exhausted)", file=sys.stderr)
            return False
        t0 = time.time()
        pending = []
        try:
            with time_limit(lim):
                fn(lambda name, ok, note=None: pending.append((name, ok, note)))
        except CaseTimeout:
            if required:
                raise Unsupported(f"required Mode-B case {label} exceeded {lim:.0f} s")
            self.skipped.append(label)
            print(f"# modeb: {self.unit.name}: case {label} skipped after {lim:.0f} s (not decided, no obligation emitted)",
                  file=sys.stderr)
            return False
        except (Unsupported, CaseTimeout):
            raise
        except Exception as e:
            import traceback
            frames = traceback.extract_tb(e.__traceback__)
            under_test = isinstance(e, SingularSystem) or any(f.filename.endswith(os.path.join("cobyqa", "models.py")) for f in frames)
            if not under_test:
                raise
            tb = traceback.format_exc(limit=8)
            for name, ok, note in pending:
                self.emit(name, ok, note)
            self.emit(f"{label}.no_unexpected_exception", False, f"{type(e).__name__}: {e} | {tb[-500:]}")
            self.timings.append((label, time.time() - t0))
            return True
        for name, ok, note in pending:
            self.emit(name, ok, note)
        self.timings.append((label, time.time() - t0))
        if os.environ.get("MODEB_TIMING"):
            print(f"# modeb: {label}: {time.time() - t0:.2f} s, {len(pending)} obligations", file=sys.stderr)
        return True
