"""Problem.best_eval under contract (C03.O2 selection rule, C02.O3 same-index triple, C06 no hidden evaluation).

The selection rule is written from the property statement and the documented tie-breaks, independently of the code:
  feas(j)  := M[j] is defined and M[j] <= feasibility_tol          deff(j) := F[j] is defined
  T1  some j with feas & deff          -> result feasible & defined, least F, ties: least M, then most recent
  T2  some feas, none of them deff     -> most recent feasible
  otherwise (no feasible entry), with merit(j) := F[j] + penalty*M[j] for finite M[j] (undefined otherwise):
  T3  some merit defined               -> least defined merit, ties: least M, then least F, then most recent
  T4  some finite M, no merit defined  -> least defined M, ties most recent
  T5  no finite M, some F defined      -> least defined F, ties most recent
  T6  nothing defined                  -> most recent
"""
import z3
from pyvc.core import cur, SB, PathEnd, Unsupported, QScope, tobool
from pyvc.unit import Unit, call_expecting
from pyvc.values import SF, SI, it, I, R, B, PINF, NINF, feq
from pyvc.seqs import SList, XList, OpaquePoint
from .common import shadow

_SH = {}


def pb_shadow():
    if "m" not in _SH:
        _SH["m"] = shadow("cobyqa.problem")
    return _SH["m"]


class Bounds:
    def project(self, x):
        cur().log.append(("project", x))
        p = OpaquePoint(x.eid, tags=("projected",))
        return p


def fin(x):
    return z3.And(z3.Not(x.nan), x.r != PINF, x.r != NINF)


class Spec:
    """Selection-rule predicates over the filter lists F, M (z3 level)."""

    def __init__(self, c, F, M, tol, pen):
        self.c, self.F, self.M, self.tol, self.pen = c, F, M, tol, pen
        self.n = F.len

    def rng(self, j): return z3.And(0 <= j, j < self.n)
    def f(self, j): return self.F.at(j)
    def m(self, j): return self.M.at(j)
    def feas(self, j): return z3.And(z3.Not(self.m(j).nan), z3.Not(self.tol.nan), self.m(j).r <= self.tol.r)
    def deff(self, j): return z3.Not(self.f(j).nan)

    def merit(self, j):
        return self.f(j) + self.pen * self.m(j)

    def merit_def(self, j):
        return z3.And(fin(self.m(j)), z3.Not(self.merit(j).nan))

    def q(self, body, exists=False):
        """quantify `body(j)` over the filter indices; arithmetic axioms stay inside the quantifier"""
        c = self.c
        j = z3.Int(c.fresh_name("vcx_s"))
        with QScope(c, j) as qs:
            b = body(j)
        ax = qs.conj()
        if exists:
            return z3.Exists([j], z3.And(ax, self.rng(j), b))
        return z3.ForAll([j], z3.Implies(z3.And(ax, self.rng(j)), b))


def selection_rule(S, i):
    """The post-condition `result index == i` must satisfy (list of (name, formula))."""
    f, m, feas, deff = S.f, S.m, S.feas, S.deff
    any_fd = S.q(lambda j: z3.And(feas(j), deff(j)), exists=True)
    any_feas = S.q(lambda j: feas(j), exists=True)
    any_finM = S.q(lambda j: fin(m(j)), exists=True)
    any_mer = S.q(lambda j: S.merit_def(j), exists=True)
    any_defF = S.q(lambda j: deff(j), exists=True)
    fi, mi = f(i), m(i)
    out = []
    t1 = z3.And(
        feas(i), deff(i),
        S.q(lambda j: z3.Implies(z3.And(feas(j), deff(j)), fi.r <= f(j).r)),
        S.q(lambda j: z3.Implies(z3.And(feas(j), deff(j), f(j).r == fi.r), mi.r <= m(j).r)),
        S.q(lambda j: z3.Implies(z3.And(feas(j), deff(j), f(j).r == fi.r, m(j).r == mi.r), j <= i)))
    out.append(("T1_feasible_least_objective", z3.Implies(any_fd, t1)))
    t2 = z3.And(feas(i), S.q(lambda j: z3.Implies(feas(j), j <= i)))
    out.append(("T2_most_recent_feasible", z3.Implies(z3.And(z3.Not(any_fd), any_feas), t2)))
    nofeas = z3.Not(any_feas)
    c = S.c
    with QScope(c, z3.Int(c.fresh_name("vcx_unused"))):
        mer_i = S.merit(i)
    t3 = z3.And(
        S.merit_def(i),
        S.q(lambda j: z3.Implies(S.merit_def(j), mer_i.r <= S.merit(j).r)),
        S.q(lambda j: z3.Implies(z3.And(S.merit_def(j), S.merit(j).r == mer_i.r), mi.r <= m(j).r)),
        S.q(lambda j: z3.Implies(z3.And(S.merit_def(j), S.merit(j).r == mer_i.r, m(j).r == mi.r, deff(j)), fi.r <= f(j).r)),
        S.q(lambda j: z3.Implies(z3.And(S.merit_def(j), S.merit(j).r == mer_i.r, m(j).r == mi.r, deff(j), f(j).r == fi.r), j <= i)))
    out.append(("T3_least_merit", z3.Implies(z3.And(nofeas, any_finM, any_mer), t3)))
    t4 = z3.And(z3.Not(mi.nan),
                S.q(lambda j: z3.Implies(z3.Not(m(j).nan), mi.r <= m(j).r)),
                S.q(lambda j: z3.Implies(z3.And(z3.Not(m(j).nan), m(j).r == mi.r), j <= i)))
    out.append(("T4_least_violation", z3.Implies(z3.And(nofeas, any_finM, z3.Not(any_mer)), t4)))
    t5 = z3.And(deff(i),
                S.q(lambda j: z3.Implies(deff(j), fi.r <= f(j).r)),
                S.q(lambda j: z3.Implies(z3.And(deff(j), f(j).r == fi.r), j <= i)))
    out.append(("T5_least_objective", z3.Implies(z3.And(nofeas, z3.Not(any_finM), any_defF), t5)))
    out.append(("T6_most_recent", z3.Implies(z3.And(nofeas, z3.Not(any_finM), z3.Not(any_defF)), i == S.n - 1)))
    return out


class BestEval(Unit):
    name = "besteval.best_eval"
    props = ("C03", "C02", "C06", "C20", "C09", "C08", "C07")
    fmodel = "ORDER"
    functions = [("cobyqa.problem", "Problem.best_eval")]
    replay = ("contracts.replays", "best_eval")
    timeout_ms = 30000
    parallel = True

    def run(self, c):
        m = pb_shadow()
        P = m.Problem
        pb = P.__new__(P)
        F, M, X = SList("F"), SList("M"), XList("X")
        pb._fun_filter, pb._maxcv_filter, pb._x_filter = F, M, X
        c.assume(z3.And(M.len == F.len, X.len == F.len))
        j = z3.Int("vcx_j")
        # invariant of the stored violations (contract of Problem.maxcv): NaN or >= 0
        c.assume(z3.ForAll([j], z3.Implies(z3.And(0 <= j, j < M.len), z3.Or(M.nan[j], M.r[j] >= 0)), patterns=[M.r[j]]))
        # NOMIX (invariant of the filter established by Problem.__call__, pbcall.py) is an *optional* hypothesis: it is used only
        # for obligations that fail without it, which then make the providing obligations of Problem.__call__ mandatory
        from .pbcall import nomix_all
        c.assume_optional("filter.nomix", nomix_all(F, M, z3.Bool(c.fresh_name("filter_all_defined"))))
        tol = SF.fresh("feasibility_tol", finite=True)
        pb._feasibility_tol = tol
        pen = SF.fresh("penalty", finite=True)
        c.assume(pen.r >= 0)
        pb._bounds = Bounds()
        pb._x0 = OpaquePoint(z3.IntVal(-1))
        called = []

        def stub_call(self, x, penalty=0.0):
            # contract of Problem.__call__: one evaluation; afterwards the filter is non-empty and aligned
            called.append(x)
            c.log.append(("pbcall", x))
            F2, M2, X2 = SList("F1"), SList("M1"), XList("X1")
            c.assume(z3.And(F2.len >= 1, M2.len == F2.len, X2.len == F2.len))
            c.assume(z3.ForAll([j], z3.Implies(z3.And(0 <= j, j < M2.len), z3.Or(M2.nan[j], M2.r[j] >= 0)), patterns=[M2.r[j]]))
            c.assume_optional("filter.nomix", nomix_all(F2, M2, z3.Bool(c.fresh_name("filter_all_defined"))))
            self._fun_filter, self._maxcv_filter, self._x_filter = F2, M2, X2
            # ... and it raises CallbackSuccess (after the filter update) iff the user's callback asked to stop
            if c.choose("callback_stops", 2, ["no", "yes"]):
                from cobyqa.utils import CallbackSuccess
                raise CallbackSuccess
        saved = P.__call__
        P.__call__ = stub_call
        try:
            empty0 = F.len == 0
            kind, res = call_expecting(c, "C08.best_eval", lambda: pb.best_eval(pen), ())
        finally:
            P.__call__ = saved
        F, M, X = pb._fun_filter, pb._maxcv_filter, pb._x_filter
        # C06: no evaluation unless the filter was empty, then exactly one at x0
        c.oblige("C06.best_eval.effects", z3.And(z3.Implies(z3.Not(empty0), z3.BoolVal(len(called) == 0)),
                                                 z3.Implies(empty0, z3.BoolVal(len(called) == 1 and called[0] is pb._x0))),
                 props=["C06", "C05"])
        x, fv, mv = res
        # C02.O3: the three components come from the same retained entry
        proj = [e for e in c.log if e[0] == "project"]
        c.oblige("C02.best_eval.returns_projected_filter_point", z3.BoolVal(len(proj) == 1 and isinstance(x, OpaquePoint)), props=["C02", "C03"])
        rows = [e[1] for e in c.log if e[0] == "xrow"]
        c.oblige("C02.best_eval.one_row_selected", z3.BoolVal(len(rows) == 1), props=["C02", "C03"])
        i = rows[0]                      # the index term used for x_filter[i, :]
        c.oblige("C02.best_eval.same_index_triple",
                 z3.And(0 <= i, i < F.len, x.eid == X.ids[i], feq(fv, F.at(i)), feq(mv, M.at(i))),
                 props=["C02", "C03", "C20"])
        S = Spec(c, F, M, tol, pen)
        for nm, t in selection_rule(S, i):
            # the feasible-first tiers also carry C07/C09: "status 1/4 => the returned point is feasible" needs the same <= test
            c.oblige("C03.best_eval.post." + nm, t, props=["C03", "C07", "C09"] if nm.startswith(("T1", "T2")) else ["C03"])


UNITS = [BestEval()]


# ---- bounded complement of the unit above (the solvers rarely refute a tier clause over the quantified float axioms) -------------------
class BestEvalBounded(Unit):
    name = "besteval.bounded"
    props = ("C03", "C02", "C07", "C09", "C08")
    fmodel = "ORDER"
    functions = [("cobyqa.problem", "Problem.best_eval")]
    replay = ("contracts.replays", "best_eval")
    bounded = ("native run-time contract on 4000 seeded filters (1..7 entries; objective values and violations with many exact ties, NaN, "
               "+-inf, values at the feasibility tolerance; penalty 0 or positive): the entry returned is the one the six-tier rule "
               "prescribes, no exception")

    def run(self, c):
        import os
        import numpy as np
        from pyvc.transform import ensure_repo_on_path
        from .subsolvers_bounded import rng_for
        from .replays import best_eval
        ensure_repo_on_path()
        rng = rng_for(self.name)
        N = 40000 if os.environ.get("VERIF_TIER") == "thorough" else 4000
        bad = None
        tol = 0.5
        enc = lambda v: "nan" if v != v else ("inf" if v == np.inf else ("-inf" if v == -np.inf else float(v)))
        for k in range(N):
            L = int(rng.integers(1, 8))
            fs = rng.choice([0.0, 1.0, 2.0, -1.0, 3.0, np.nan, np.inf, -np.inf], size=L, p=[0.2, 0.2, 0.15, 0.15, 0.1, 0.08, 0.06, 0.06])
            ms = rng.choice([0.0, 0.25, 0.5, 1.0, 2.0, 3.0, np.nan, np.inf], size=L, p=[0.15, 0.1, 0.15, 0.2, 0.15, 0.1, 0.08, 0.07])
            case = dict(F=[enc(v) for v in fs], M=[enc(v) for v in ms], feasibility_tol=tol, penalty=float(rng.choice([0.0, 1.0, 10.0])))
            r = best_eval(**case)
            if r["reproduced"] and bad is None:
                bad = (k, case, r["observed"])
        c.oblige(f"C03.best_eval.returns_the_prescribed_entry[{N} cases]", z3.BoolVal(bad is None), kind="bounded",
                 props=["C03", "C02", "C07", "C09", "C08"],
                 note=None if bad is None else f"case {bad[0]}: {bad[2]}"[:1200], replay_inputs=None if bad is None else bad[1])


UNITS.append(BestEvalBounded())


# ---- C03.O3: lemma over the contracts ------------------------------------------------------------------------------
class ReturnedPointLemma(Unit):
    """COVER (invariant of Problem.__call__) + the selection rule (postcondition of best_eval) => the two clauses of the statement
    over *all* evaluated points.  No code is executed: this is the composition step, discharged by the solver."""
    name = "besteval.lemma_returned_point_is_best"
    props = ("C03",)
    fmodel = "ORDER"
    functions = []
    timeout_ms = 30000
    assumptions = ["N1/N2: the merit clause is stated for the tier in which no retained point is feasible, over evaluated points whose "
                   "objective and violation are defined and whose merit value does not overflow to NaN"]

    def run(self, c):
        from .pbcall import Hist, fd, dom, subset_all
        H = Hist(c)
        F, M, X = SList("F"), SList("M"), XList("X")
        c.assume(z3.And(M.len == F.len, X.len == F.len, F.len >= 1))
        j = z3.Int("vcx_j")
        c.assume(z3.ForAll([j], z3.Implies(z3.And(0 <= j, j < H.len), z3.Or(H.mn[j], H.mr[j] >= 0)), patterns=[H.mr[j]]))
        c.assume(subset_all(F, M, X, H))
        # COVER as a Skolem function: every fully defined evaluated point p is dominated by the retained entry w(p)
        w = z3.Function(c.fresh_name("cover_w"), I, I)
        p = z3.Int("vcx_p")
        c.assume(z3.ForAll([p], z3.Implies(z3.And(0 <= p, p < H.len, fd(H.f(p), H.m(p))),
                                           z3.And(0 <= w(p), w(p) < F.len, dom(F.at(w(p)), M.at(w(p)), H.f(p), H.m(p)))),
                           patterns=[w(p)]))
        tol = SF.fresh("feasibility_tol", finite=True)
        pen = SF.fresh("penalty", finite=True)
        c.assume(pen.r >= 0)
        i = z3.Int(c.fresh_name("best.index"))
        c.assume(z3.And(0 <= i, i < F.len))
        S = Spec(c, F, M, tol, pen)
        for nm, t in selection_rule(S, i):
            c.assume(t)
        fi, mi = F.at(i), M.at(i)
        # an arbitrary evaluated point
        p0 = z3.Int(c.fresh_name("p"))
        c.assume(z3.And(0 <= p0, p0 < H.len))
        fp, mp = H.f(p0), H.m(p0)
        q0 = w(p0)
        c.assume(q0 == q0)      # make the instance term available
        feas = lambda m_: z3.And(z3.Not(m_.nan), m_.r <= tol.r)
        # clause 1: a feasible evaluated point with a defined objective exists => returned point feasible with the least objective
        c.oblige("C03.lemma.feasible_point_with_least_objective",
                 z3.Implies(z3.And(feas(mp), z3.Not(fp.nan)), z3.And(feas(mi), z3.Not(fi.nan), fi.r <= fp.r)), props=["C03"])
        # not dominated by any evaluated point
        c.oblige("C03.lemma.not_dominated_when_feasible_exists",
                 z3.Implies(z3.And(feas(mi), z3.Not(fi.nan), fd(fp, mp)), z3.Not(z3.And(fp.r < fi.r, mp.r < mi.r))), props=["C03"])
        # clause 2 (no retained point is feasible): least merit over the evaluated, fully defined points
        nofeas = S.q(lambda k: z3.Not(S.feas(k)))
        with QScope(c, z3.Int(c.fresh_name("vcx_unused"))):
            mer_i = S.merit(i)
            mer_p = fp + pen * mp
            mer_q = S.merit(q0)
        ok_p = z3.And(fd(fp, mp), mp.r < PINF, z3.Not(mer_p.nan), S.merit_def(q0))
        # intermediate cuts: domination implies a smaller merit (IEEE monotonicity); the selection rule at index w(p)
        pm_q, pm_p = pen * M.at(q0), pen * mp
        c.oblige("C03.lemma.cut.penalty_term_monotone", z3.Implies(ok_p, z3.And(z3.Not(pm_q.nan), z3.Not(pm_p.nan), pm_q.r <= pm_p.r)), props=["C03"])
        c.oblige("C03.lemma.cut.dominating_entry_has_smaller_merit", z3.Implies(ok_p, mer_q.r <= mer_p.r), props=["C03"])
        c.oblige("C03.lemma.cut.selected_has_least_merit_in_filter",
                 z3.Implies(z3.And(nofeas, S.merit_def(i), ok_p), mer_i.r <= mer_q.r), props=["C03"])
        c.oblige("C03.lemma.least_merit_when_nothing_feasible",
                 z3.Implies(z3.And(nofeas, S.merit_def(i), ok_p), mer_i.r <= mer_p.r), props=["C03"])
        c.oblige("C03.lemma.not_dominated_when_nothing_feasible",
                 z3.Implies(z3.And(nofeas, S.merit_def(i), ok_p), z3.Not(z3.And(fp.r < fi.r, mp.r < mi.r))), props=["C03"])
        # NaN never preferred to a defined value among feasible points
        c.oblige("C03.lemma.nan_objective_never_preferred_among_feasible",
                 z3.Implies(z3.And(feas(mp), z3.Not(fp.nan)), z3.Not(fi.nan)), props=["C03"])


UNITS.append(ReturnedPointLemma())
