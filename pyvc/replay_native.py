"""Native (z3-free) replay of a counterexample against the real, untransformed code.

Run under the repository's own interpreter:  /venv/bin/python pyvc/replay_native.py <replay.json>
Prints one JSON line {"reproduced": bool, ...}.
"""
import importlib
import json
import os
import sys


def main():
    path = sys.argv[1]
    with open(path) as fh:
        doc = json.load(fh)
    repo = os.environ.get("REPO", doc.get("repo", "/repo"))
    sys.path.insert(0, repo)
    here = os.path.dirname(os.path.dirname(os.path.abspath(__file__)))
    sys.path.insert(0, here)
    nat = doc.get("native")
    if not nat:
        print(json.dumps({"reproduced": False, "reason": "no native replay recipe for this obligation"}))
        return 0
    mod = importlib.import_module(nat["module"])
    fn = getattr(mod, nat["function"])
    try:
        res = fn(**nat["inputs"])
    except Exception as e:  # the replay harness itself failed
        import traceback
        print(json.dumps({"reproduced": False, "error": repr(e), "tb": traceback.format_exc()[-800:]}))
        return 0
    print(json.dumps(res, default=str))
    return 0


if __name__ == "__main__":
    sys.exit(main())
