"""Dicts with symbolic key presence (options / constants)."""
import enum
import z3
from .core import SB, Unsupported, cur, tobool
from .values import SF, SI, ite, FALSE, TRUE


def keyname(k):
    if isinstance(k, enum.Enum):
        return str(k.value)
    if isinstance(k, str):
        return k
    raise Unsupported(f"dict key of type {type(k).__name__}")


class Maybe:
    """A kwargs entry that may be absent (harness-side encoding of a symbolic **kwargs)."""
    def __init__(self, present, value):
        self.present = present
        self.value = value


class SDict:
    _vcx_symbolic = True

    def __init__(self, entries=None, owner="solver", name="dict"):
        # entries: name -> [present(z3 Bool), value]
        self.e = {k: [p, v] for k, (p, v) in (entries or {}).items()}
        self.owner = owner
        self.name = name
        self.version = 0

    # ---- helpers -------------------------------------------------------------------------
    def _written(self):
        if self.owner == "user":
            cur().oblige("frame.user_dict_not_written", FALSE, kind="frame", note=f"write to user-owned dict {self.name}")
        self.version += 1

    def _present_const(self, k):
        if k not in self.e:
            return False
        p = z3.simplify(self.e[k][0])
        if z3.is_true(p):
            return True
        if z3.is_false(p):
            return False
        c = cur()
        # under the current path condition (and `and`/`or` guards) the presence may be decided
        if not c.feasible(z3.Not(p)):
            return True
        if not c.feasible(p):
            return False
        return None

    def copy(self):
        return SDict({k: (p, v) for k, (p, v) in self.e.items()}, "solver", self.name + "_copy")

    # ---- mapping protocol --------------------------------------------------------------------
    def __contains__(self, k):
        k = keyname(k)
        if k not in self.e:
            return False
        p = z3.simplify(self.e[k][0])
        if z3.is_true(p):
            return True
        if z3.is_false(p):
            return False
        return SB(p)

    def __getitem__(self, k):
        k = keyname(k)
        pc = self._present_const(k)
        if pc is None:
            pc = bool(SB(self.e[k][0]))
        if not pc:
            raise KeyError(k)
        return self.e[k][1]

    def get(self, k, default=None):
        k = keyname(k)
        pc = self._present_const(k)
        if pc is None:
            pc = bool(SB(self.e[k][0]))
        return self.e[k][1] if pc else default

    def __setitem__(self, k, v):
        k = keyname(k)
        self._written()
        self.e[k] = [TRUE, v]

    def setdefault(self, k, default=None):
        k = keyname(k)
        pc = self._present_const(k)
        if pc is True:
            return self.e[k][1]
        self._written()
        if pc is False:
            self.e[k] = [TRUE, default]
            return default
        p, old = self.e[k]
        try:
            v = ite(p, old, default)
        except Unsupported:
            v = None
        if v is None or not (isinstance(old, (SF, SI, SB)) or isinstance(default, (SF, SI, SB))):
            if bool(SB(p)):
                self.e[k] = [TRUE, old]
                return old
            self.e[k] = [TRUE, default]
            return default
        self.e[k] = [TRUE, v]
        return v

    def pop(self, *a):
        raise Unsupported("dict.pop on a symbolic dict")

    def __iter__(self):
        out = []
        for k, (p, v) in list(self.e.items()):
            pc = self._present_const(k)
            if pc is None:
                pc = bool(SB(p))
            if pc:
                out.append(k)
        return iter(out)

    def keys(self):
        return list(iter(self))

    def items(self):
        return [(k, self.e[k][1]) for k in iter(self)]

    def values(self):
        return [self.e[k][1] for k in iter(self)]

    def __len__(self):
        raise Unsupported("len() of a symbolic dict")

    def present(self, k):
        """z3 term: key present."""
        k = keyname(k)
        return self.e[k][0] if k in self.e else FALSE

    def value(self, k):
        return self.e[keyname(k)][1]


class _VDictMeta(type):
    """`dict` inside the shadow modules: callable like the builtin (with the symbolic cases below) and usable as the second argument of
    isinstance / issubclass"""

    def __call__(cls, *a, **kw):
        return _v_dict(*a, **kw)

    def __instancecheck__(cls, obj):
        return isinstance(obj, (dict, SDict))

    def __subclasscheck__(cls, sub):
        return issubclass(sub, (dict, SDict))


class v_dict(metaclass=_VDictMeta):
    pass


def _v_dict(*a, **kw):
    """Shim for the builtin `dict`."""
    if len(a) == 1 and isinstance(a[0], SDict) and not kw:
        return a[0].copy()
    if len(a) == 1 and isinstance(a[0], dict) and not kw and any(isinstance(v, Maybe) for v in a[0].values()):
        ent = {}
        for k, v in a[0].items():
            if isinstance(v, Maybe):
                ent[keyname(k)] = (v.present, v.value)
            else:
                ent[keyname(k)] = (TRUE, v)
        return SDict(ent, "solver", "kwargs_copy")
    return dict(*a, **kw)
