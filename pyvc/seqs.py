"""Python lists of symbolic length (the filter and the history lists of Problem)."""
import z3
from .core import SB, Unsupported, cur, tobool
from .values import SF, SI, it, I, R, B, PINF, NINF
from .vecs import SV


class SList:
    """list of floats: (len, Array Int->Real, Array Int->Bool)."""
    _vcx_symbolic = True

    def __init__(self, name, ln=None, r=None, nan=None, register=True):
        c = cur()
        nm = c.fresh_name(name)
        self.name = nm
        self.len = ln if ln is not None else z3.Int(nm + ".len")
        self.r = r if r is not None else z3.Array(nm + ".r", I, R)
        self.nan = nan if nan is not None else z3.Array(nm + ".nan", I, B)
        self.version = 0
        if ln is None:
            c.assume(self.len >= 0)
            c.size_hints.append(self.len)
            j = z3.Int("vcx_j")
            c.pc.append(z3.ForAll([j], z3.And(NINF <= self.r[j], self.r[j] <= PINF), patterns=[self.r[j]]))
        if register:
            c.named[nm] = self

    def snapshot(self):
        """An immutable view of the current contents (for `old(...)` in postconditions)."""
        s = SList.__new__(SList)
        s.name, s.len, s.r, s.nan, s.version = self.name + "@old", self.len, self.r, self.nan, 0
        return s

    def at(self, j):
        j = it(j)
        return SF(self.r[j], self.nan[j], True)
    _vcx_at = at

    def _vcx_len(self):
        return SI(self.len)

    def __len__(self):
        raise Unsupported("len() of a symbolic list reached a builtin")

    def __getitem__(self, k):
        if isinstance(k, int) and k < 0:
            k = self.len + k
        k = it(k)
        cur().oblige("list.index_in_range", z3.And(0 <= k, k < self.len), kind="side")
        return self.at(k)

    def __iter__(self):
        raise Unsupported("iteration over a symbolic list without a quantifier rewrite / loop invariant")

    def append(self, v):
        v = SF.lift(v)
        self.r = z3.Store(self.r, self.len, v.r)
        self.nan = z3.Store(self.nan, self.len, v.nan)
        self.len = self.len + 1
        self.version += 1

    def pop(self, k=-1):
        c = cur()
        if isinstance(k, int) and k < 0:
            k = self.len + k
        k = it(k)
        c.oblige("list.pop_in_range", z3.And(0 <= k, k < self.len), kind="side")
        old = self.at(k)
        nm = c.fresh_name(self.name + ".pop")
        nr = z3.Array(nm + ".r", I, R)
        nn = z3.Array(nm + ".nan", I, B)
        j = z3.Int("vcx_j")
        c.assume(z3.ForAll([j], z3.Implies(z3.And(0 <= j, j < k), z3.And(nr[j] == self.r[j], nn[j] == self.nan[j])),
                           patterns=[nr[j], nn[j]]))
        c.assume(z3.ForAll([j], z3.Implies(z3.And(k <= j, j < self.len - 1),
                                           z3.And(nr[j] == self.r[j + 1], nn[j] == self.nan[j + 1])),
                           patterns=[nr[j], nn[j]]))
        c.assume(z3.ForAll([j], z3.And(NINF <= nr[j], nr[j] <= PINF), patterns=[nr[j]]))
        self.r, self.nan, self.len = nr, nn, self.len - 1
        self.version += 1
        return old

    def _vcx_toarray(self):
        r, nan = self.r, self.nan
        v = SV(self.len, lambda i: SF(r[i], nan[i], True), "f")
        return v

    def _vcx_concretize(self, zm, val, cap):
        from .unit import _num
        n = _num(zm.eval(self.len, model_completion=True))
        if n is None or n > cap:
            return {"len": n, "elems": None}
        return [val(self.at(z3.IntVal(i))) for i in range(max(n, 0))]


class XList:
    """list of opaque objects identified by a ghost integer id (e.g. evaluation index of a point)."""
    _vcx_symbolic = True

    def __init__(self, name, ln=None, ids=None):
        c = cur()
        nm = c.fresh_name(name)
        self.name = nm
        self.len = ln if ln is not None else z3.Int(nm + ".len")
        self.ids = ids if ids is not None else z3.Array(nm + ".id", I, I)
        self.objs = {}       # python objects appended on this path, by z3 id-term id
        self.version = 0
        if ln is None:
            c.assume(self.len >= 0)
        c.named[nm] = self

    def _vcx_concretize(self, zm, val, cap):
        from .unit import _num
        n = _num(zm.eval(self.len, model_completion=True))
        if n is None or n > cap:
            return {"len": n, "elems": None}
        return [_num(zm.eval(self.ids[z3.IntVal(i)], model_completion=True)) for i in range(max(n, 0))]

    def snapshot(self):
        s = XList.__new__(XList)
        s.name, s.len, s.ids, s.objs, s.version = self.name + "@old", self.len, self.ids, dict(self.objs), 0
        return s

    def id_at(self, j):
        return self.ids[it(j)]

    def _vcx_len(self):
        return SI(self.len)

    def append(self, x):
        eid = getattr(x, "ghost", {}).get("eid") if hasattr(x, "ghost") else None
        if eid is None:
            eid = getattr(x, "eid", None)
        if eid is None:
            raise Unsupported("appending an object without a ghost id to an XList")
        self.ids = z3.Store(self.ids, self.len, it(eid))
        self.len = self.len + 1
        self.version += 1

    def pop(self, k=-1):
        c = cur()
        if isinstance(k, int) and k < 0:
            k = self.len + k
        k = it(k)
        c.oblige("list.pop_in_range", z3.And(0 <= k, k < self.len), kind="side")
        nm = c.fresh_name(self.name + ".pop")
        ni = z3.Array(nm + ".id", I, I)
        j = z3.Int("vcx_j")
        c.assume(z3.ForAll([j], z3.Implies(z3.And(0 <= j, j < k), ni[j] == self.ids[j]), patterns=[ni[j]]))
        c.assume(z3.ForAll([j], z3.Implies(z3.And(k <= j, j < self.len - 1), ni[j] == self.ids[j + 1]), patterns=[ni[j]]))
        self.ids, self.len = ni, self.len - 1
        self.version += 1

    def _vcx_toarray(self):
        return XRows(self)


class XRows:
    """np.array(list of points): only `rows[i, :]` is modelled; the row is an opaque point with ghost id."""
    _vcx_symbolic = True

    def __init__(self, xl):
        self.ids, self.len = xl.ids, xl.len
        self.mk = None

    def __getitem__(self, key):
        if not (isinstance(key, tuple) and len(key) == 2 and key[1] == slice(None)):
            raise Unsupported("only rows[i, :] is modelled")
        i = it(key[0])
        cur().oblige("index.in_bounds", z3.And(0 <= i, i < self.len), kind="side")
        cur().log.append(("xrow", i))
        return self.make_point(self.ids[i])

    def make_point(self, eid):
        p = OpaquePoint(eid)
        return p


class OpaquePoint:
    """A point of which only the ghost identity matters."""
    _vcx_symbolic = True
    _vcx_asarray = True

    def __init__(self, eid, tags=()):
        self.eid = eid
        self.ghost = {"eid": eid}
        self.tags = set(tags)
