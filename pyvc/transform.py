"""Mechanical AST transformation of the real cobyqa sources and shadow-module loading.

What is rewritten (nothing else; see DESIGN.md 2.2):
  * `a and b`, `a or b`  -> vcx_and(lambda: a, lambda: b) / vcx_or(...)   (short-circuit order kept)
  * `not a`              -> vcx_not(a)
  * all(<genexpr>) / any(<genexpr>) with a single `for`, no `if` -> vcx_all / vcx_any(lambda tgt: elt, iterable, star)
  * loops that have a sidecar cut (keyed by (function qualname, loop ordinal)) -> invariant cut
  * docstrings are dropped
On concrete values every rewritten construct computes exactly what the original does.
"""
import ast
import importlib
import os
import sys
import types

from .core import StaleContract, Unsupported


def repo_root():
    return os.environ.get("REPO", "/repo")


def ensure_repo_on_path():
    r = repo_root()
    if sys.path[0] != r:
        if r in sys.path:
            sys.path.remove(r)
        sys.path.insert(0, r)
    # drop a cobyqa imported from elsewhere
    m = sys.modules.get("cobyqa")
    if m is not None and not os.path.abspath(getattr(m, "__file__", "")).startswith(os.path.abspath(r)):
        for k in [k for k in sys.modules if k == "cobyqa" or k.startswith("cobyqa.")]:
            del sys.modules[k]


def _lam(body, args=()):
    return ast.Lambda(
        args=ast.arguments(posonlyargs=[], args=[ast.arg(a) for a in args], kwonlyargs=[], kw_defaults=[], defaults=[]),
        body=body)


def _target_names(t):
    if isinstance(t, ast.Name):
        return [t.id], False
    if isinstance(t, (ast.Tuple, ast.List)) and all(isinstance(e, ast.Name) for e in t.elts):
        return [e.id for e in t.elts], True
    raise Unsupported("generator target too complex for the quantifier rewrite")


class Rewriter(ast.NodeTransformer):
    def __init__(self, cuts, filename):
        self.cuts = cuts              # {(qualname, ordinal): loop_id}
        self.filename = filename
        self.scope = []               # qualname stack
        self.loop_count = {}          # qualname -> loops seen
        self.used_cuts = set()
        self.nloop = 0

    # ---- scopes ------------------------------------------------------------------------
    def _strip_doc(self, node):
        if node.body and isinstance(node.body[0], ast.Expr) and isinstance(getattr(node.body[0], "value", None), ast.Constant) \
                and isinstance(node.body[0].value.value, str):
            node.body = node.body[1:] or [ast.Pass()]

    def visit_Module(self, node):
        self._strip_doc(node)
        self.generic_visit(node)
        return node

    def visit_ClassDef(self, node):
        self._strip_doc(node)
        self.scope.append(node.name)
        self.generic_visit(node)
        self.scope.pop()
        return node

    def visit_FunctionDef(self, node):
        self._strip_doc(node)
        self.scope.append(node.name)
        q = ".".join(self.scope)
        self.loop_count.setdefault(q, 0)
        self.generic_visit(node)
        self.scope.pop()
        return node

    # ---- boolean structure ---------------------------------------------------------------
    def visit_BoolOp(self, node):
        self.generic_visit(node)
        fn = "vcx_and" if isinstance(node.op, ast.And) else "vcx_or"
        return ast.copy_location(ast.Call(func=ast.Name(fn, ast.Load()), args=[_lam(v) for v in node.values], keywords=[]), node)

    def visit_UnaryOp(self, node):
        self.generic_visit(node)
        if isinstance(node.op, ast.Not):
            return ast.copy_location(ast.Call(func=ast.Name("vcx_not", ast.Load()), args=[node.operand], keywords=[]), node)
        return node

    def visit_Call(self, node):
        self.generic_visit(node)
        if isinstance(node.func, ast.Name) and node.func.id in ("all", "any") and len(node.args) == 1 \
                and not node.keywords and isinstance(node.args[0], ast.GeneratorExp):
            g = node.args[0]
            if len(g.generators) == 1 and not g.generators[0].ifs and not g.generators[0].is_async:
                comp = g.generators[0]
                names, star = _target_names(comp.target)
                return ast.copy_location(ast.Call(
                    func=ast.Name("vcx_" + node.func.id, ast.Load()),
                    args=[_lam(g.elt, names), comp.iter, ast.Constant(star)], keywords=[]), node)
        return node

    # ---- loops ----------------------------------------------------------------------------
    def _loop_key(self):
        q = ".".join(self.scope)
        k = self.loop_count.get(q, 0)
        self.loop_count[q] = k + 1
        return q, k

    def _stores(self, stmts):
        names = set()
        for b in stmts:
            for n in ast.walk(b):
                if isinstance(n, ast.Name) and isinstance(n.ctx, (ast.Store, ast.Del)) and not n.id.startswith("vcx_"):
                    names.add(n.id)
        return sorted(names)

    def _inplace(self, stmts):
        """Names of objects written in place in the body: x[...] = ..., x[...] op= ..., x op= ... (numpy in-place), x.attr = ..."""
        names = set()
        for b in stmts:
            for n in ast.walk(b):
                tg = []
                if isinstance(n, ast.Assign):
                    tg = n.targets
                elif isinstance(n, (ast.AugAssign, ast.AnnAssign)):
                    tg = [n.target]
                for t in tg:
                    for tt in ast.walk(t):
                        if isinstance(tt, (ast.Subscript, ast.Attribute)) and isinstance(tt.ctx, ast.Store):
                            base = tt.value
                            while isinstance(base, (ast.Subscript, ast.Attribute)):
                                base = base.value
                            if isinstance(base, ast.Name):
                                names.add(base.id)
                    if isinstance(n, ast.AugAssign) and isinstance(t, ast.Name):
                        names.add(t.id)
        return sorted(names)

    def _has_break(self, stmts):
        """a `break` that leaves this loop (not one of a nested loop)"""
        def walk(n):
            if isinstance(n, ast.Break):
                return True
            if isinstance(n, (ast.For, ast.While, ast.FunctionDef, ast.Lambda, ast.ClassDef)):
                return any(walk(x) for x in getattr(n, "orelse", []))
            return any(walk(x) for x in ast.iter_child_nodes(n))
        return any(walk(b) for b in stmts)

    def _cut(self, node, is_for):
        q, k = self._loop_key()
        key = (q, k)
        # the ordinal is taken in pre-order, so number this loop before visiting nested ones
        self.generic_visit(node)
        if key not in self.cuts:
            return node
        self.used_cuts.add(key)
        lid = self.cuts[key]
        frame_only = False
        if isinstance(lid, tuple):
            lid, mode = lid
            frame_only = mode == "frame"
        self.nloop += 1
        L = f"vcx_L{self.nloop}"
        H = f"vcx_H{self.nloop}"
        mods = self._stores(node.body + ([node.target] if is_for else []))
        if frame_only:
            # frame-only cut: the loop is replaced by a havoc of everything its body can modify (names assigned, objects written through
            # subscripts / augmented assignments); the body itself is NOT explored here (its clauses are checked elsewhere)
            inplace = self._inplace(node.body)
            code = ast.parse(
                f"{L} = vcx_loop({lid!r}, {tuple(mods)!r})\n"
                f"{H} = {L}.havoc_frame(locals(), {tuple(mods)!r}, {tuple(inplace)!r})\n"
                + "".join(f"if {n!r} in {H}: {n} = {H}[{n!r}]\n" for n in mods)
            ).body
            for n in code:
                ast.copy_location(n, node)
            return code
        inplace_names = self._inplace(node.body)
        pre = ast.parse(
            f"{L} = vcx_loop({lid!r}, {tuple(mods)!r}, {tuple(inplace_names)!r})\n"
            f"{L}.begin(None, locals())\n"
            f"{H} = {L}.havoc(locals())\n"
            + "".join(f"if {n!r} in {H}: {n} = {H}[{n!r}]\n" for n in mods)
        ).body
        if is_for:
            pre[1].value.args[0] = node.iter     # L.begin(<iterable>, locals())
        once = ast.For(target=ast.Name("vcx_once", ast.Store()), iter=ast.Tuple([ast.Constant(0)], ast.Load()),
                       body=node.body, orelse=ast.parse(f"{L}.end(locals())").body, type_comment=None)
        # reached only when the body left by `break`: a contract that merges break exits proves its invariant there and ends the
        # path (the continuation `via_break` below stands for all of them); other contracts just go on after the loop
        broke = ast.parse(f"{L}.broke(locals())").body
        if is_for:
            test = ast.parse(f"{L}.iterate(locals())").body[0].value
            bind = ast.Assign(targets=[node.target], value=ast.parse(f"{L}.target()").body[0].value)
            ifnode = ast.If(test=test, body=[bind, once] + broke, orelse=ast.parse(f"{L}.exit(locals())").body + node.orelse)
        else:
            ifnode = ast.If(test=node.test, body=[once] + broke, orelse=ast.parse(f"{L}.exit(locals())").body + node.orelse)
        if self._has_break(node.body) and not node.orelse:
            # if <engine choice: leave as by a break, knowing only the invariant>: pass   elif <test>: ...   else: ...
            ifnode = ast.If(test=ast.parse(f"{L}.via_break()").body[0].value, body=[ast.Pass()], orelse=[ifnode])
        out = pre + [ifnode]
        for n in out:
            ast.copy_location(n, node)
        return out

    def visit_For(self, node):
        return self._cut(node, True)

    def visit_While(self, node):
        return self._cut(node, False)


def transform_source(src, filename, cuts=None, expect_loops=None):
    """Return the transformed AST.  `expect_loops`: {qualname: number of loops} cross-check."""
    tree = ast.parse(src, filename)
    rw = Rewriter(cuts or {}, filename)
    tree = rw.visit(tree)
    ast.fix_missing_locations(tree)
    missing = set((cuts or {}).keys()) - rw.used_cuts
    if missing:
        raise StaleContract(f"loop cut anchors not found in {filename}: {sorted(missing)}")
    for q, nl in (expect_loops or {}).items():
        if rw.loop_count.get(q) != nl:
            raise StaleContract(f"{filename}: {q} has {rw.loop_count.get(q)} loops, the contracts expect {nl}")
    return tree


def load_shadow(modname, inject, cuts=None, expect_loops=None, post_inject=None):
    """Re-exec the whole real module source (transformed) as a shadow module.

    `inject` is placed in the module globals *before* executing the module code only for the vcx_
    helpers; everything in `post_inject` replaces globals *after* the module body ran (so that the
    module's own imports and constants are the real ones at import time and the shims are what the
    function bodies see at call time).
    """
    ensure_repo_on_path()
    real = importlib.import_module(modname)
    path = real.__file__
    if not os.path.abspath(path).startswith(os.path.abspath(repo_root())):
        raise RuntimeError(f"{modname} was imported from {path}, not from {repo_root()}")
    with open(path) as fh:
        src = fh.read()
    tree = transform_source(src, path, cuts, expect_loops)
    m = types.ModuleType(modname + "__vc")
    m.__package__ = real.__package__
    m.__file__ = path
    m.__dict__.update(inject)
    exec(compile(tree, path, "exec"), m.__dict__)
    if post_inject:
        m.__dict__.update(post_inject)
    m.__dict__["__vcx_source__"] = src
    return m


def function_source(modname, qualname):
    """Source text of a function in the real tree (for evidence / change detection)."""
    ensure_repo_on_path()
    real = importlib.import_module(modname)
    with open(real.__file__) as fh:
        src = fh.read()
    tree = ast.parse(src)
    parts = qualname.split(".")

    def find(body, parts):
        for n in body:
            if isinstance(n, (ast.FunctionDef, ast.ClassDef)) and n.name == parts[0]:
                if len(parts) == 1:
                    return n
                return find(n.body, parts[1:])
        return None
    n = find(tree.body, parts)
    if n is None:
        raise StaleContract(f"{modname}.{qualname} not found")
    return ast.get_source_segment(src, n)
