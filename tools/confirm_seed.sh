#!/bin/sh
# tools/confirm_seed.sh <Cnn> <patch> <demo.py>: confirm a seeded change in a scratch worktree of /repo HEAD:
# tests + demo on the clean tree, then with the patch; run ./check with REPO=<scratch>; remove the worktree.
P="$1"; PATCH="$2"; DEMO="$3"; shift 3
W=/tmp/vcx-seed-$P
git -C /repo worktree remove --force "$W" 2>/dev/null
git -C /repo worktree add -q --detach "$W" HEAD || exit 3
trap 'git -C /repo worktree remove --force "$W"' EXIT
mkdir -p "$W/.demo"; cp "$DEMO" "$W/.demo/demo.py"
run() { ( cd "$W" && PYTHONPATH="$W" /venv/bin/python -m pytest -q -p no:cacheprovider --timeout=900 2>&1 | tail -1; cd "$W/.demo" && PYTHONPATH="$W" /venv/bin/python -P demo.py >/dev/null 2>&1; echo "demo exit=$?" ); }
echo "--- clean"; run
git -C "$W" apply "$PATCH" 2>/dev/null || git -C "$W" apply --3way "$PATCH" || { echo "patch does not apply"; exit 3; }
echo "--- seeded"; run
echo "--- check"; REPO="$W" /verif/check "$P" "$@" 2>&1 | grep -E "^# failed|VIOLATION|UNDECIDED|ENGINE|^pyvc" | cut -c1-260
