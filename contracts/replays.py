"""z3-free native replays: rebuild the concrete pre-state from a counter-model, run the REAL untransformed
function from $REPO under the repository's interpreter and evaluate the same postcondition natively."""
import math
import numpy as np


def F(x):
    if isinstance(x, str):
        return {"nan": math.nan, "inf": math.inf, "-inf": -math.inf}[x]
    return float(x)


def _tr(inp):
    from cobyqa.framework import TrustRegion
    from cobyqa.settings import DEFAULT_CONSTANTS
    tr = TrustRegion.__new__(TrustRegion)
    tr._constants = {k: (bool(inp[k]) if isinstance(DEFAULT_CONSTANTS[k], bool) else F(inp[k]))
                     for k in DEFAULT_CONSTANTS if k in inp}
    for k, v in DEFAULT_CONSTANTS.items():
        tr._constants.setdefault(k, v)
    tr._radius = F(inp["radius"])
    tr._resolution = F(inp["resolution"])
    return tr


def tr_enhance_resolution(**inp):
    from cobyqa.settings import Options
    tr = _tr(inp)
    rf = F(inp["radius_final"])
    res0 = tr._resolution
    tr.enhance_resolution({Options.RHOEND.value: rf})
    ok = rf <= tr._resolution <= tr._radius and tr._resolution < res0
    return {"reproduced": not ok, "observed": {"resolution": tr._resolution, "radius": tr._radius, "radius_final": rf,
                                               "resolution_before": res0},
            "required": "radius_final <= resolution' <= radius' and resolution' < resolution"}


def tr_update_radius(**inp):
    tr = _tr(inp)
    rf = F(inp["radius_final"])
    s = F(inp.get("step_norm", 0.0))
    tr.update_radius(np.array([s]), F(inp["ratio"]))
    ok = rf <= tr._resolution <= tr._radius
    return {"reproduced": not ok, "observed": {"resolution": tr._resolution, "radius": tr._radius}}


def tr_radius_setter(**inp):
    tr = _tr(inp)
    rf = F(inp["radius_final"])
    if "new_radius" in inp:
        tr.radius = F(inp["new_radius"])
    else:
        tr.radius *= tr._constants["decrease_resolution_factor"]
    ok = rf <= tr._resolution <= tr._radius
    return {"reproduced": not ok, "observed": {"resolution": tr._resolution, "radius": tr._radius}}


# ---- C19 ------------------------------------------------------------------------------------------
_OPT_KINDS = {"disp": "b", "maxfev": "i", "maxiter": "i", "target": "f", "feasibility_tol": "f", "radius_init": "f",
              "radius_final": "f", "nb_points": "i", "scale": "b", "filter_size": "i", "store_history": "b",
              "history_size": "i", "debug": "b"}


def set_default_options(**inp):
    import warnings
    from cobyqa.main import _set_default_options
    n = int(inp["n"])
    opts = {}
    for k, kind in _OPT_KINDS.items():
        if inp.get("has_" + k):
            v = inp[k]
            opts[k] = bool(v) if kind == "b" else (int(v) if kind == "i" else F(v))
    if inp.get("has_unknown"):
        opts["vcx_unknown_key"] = 1
    supplied = dict(opts)
    g = supplied.get
    bad = (("radius_init" in supplied and g("radius_init") <= 0) or ("radius_final" in supplied and g("radius_final") < 0)
           or ("radius_init" in supplied and "radius_final" in supplied and g("radius_init") < g("radius_final"))
           or ("nb_points" in supplied and not (n + 1 <= g("nb_points") <= ((n + 1) * (n + 2)) // 2))
           or ("maxfev" in supplied and g("maxfev") <= 0) or ("maxiter" in supplied and g("maxiter") <= 0))
    raised = False
    with warnings.catch_warnings(record=True) as w:
        warnings.simplefilter("always")
        try:
            _set_default_options(opts, n)
        except ValueError:
            raised = True
    problems = []
    if raised != bad:
        problems.append(f"ValueError raised={raised} but a documented restriction is violated={bad}")
    if not raised:
        if not (opts["radius_init"] > 0 and 0 <= opts["radius_final"] <= opts["radius_init"]
                and n + 1 <= opts["nb_points"] <= ((n + 1) * (n + 2)) // 2
                and (opts["maxfev"] >= 1 or (n == 0 and "maxfev" not in supplied))
                and (opts["maxiter"] >= 1 or (n == 0 and "maxiter" not in supplied))):
            problems.append("completed options violate a documented relation")
        nw = sum(1 for x in w if issubclass(x.category, RuntimeWarning))
        if nw != (1 if inp.get("has_unknown") else 0):
            problems.append(f"{nw} RuntimeWarnings for unknown={bool(inp.get('has_unknown'))}")
    return {"reproduced": bool(problems), "observed": {"supplied": supplied, "n": n, "raised": raised,
                                                        "completed": {k: opts.get(k) for k in _OPT_KINDS} if not raised else None},
            "problems": problems}


def set_default_constants(**inp):
    import warnings
    from cobyqa.main import _set_default_constants
    from cobyqa.settings import DEFAULT_CONSTANTS
    from contracts.spec_plain import CONST_DOMAINS, CONST_RELATIONS
    kw = {}
    for k in DEFAULT_CONSTANTS:
        if inp.get("has_" + k):
            kw[k] = bool(inp[k]) if isinstance(DEFAULT_CONSTANTS[k], bool) else F(inp[k])

    def indom(k, v):
        kind, lo, los, hi, his = CONST_DOMAINS[k]
        if kind == "b":
            return True
        ok = math.isfinite(v)
        if lo is not None:
            ok = ok and (v > lo if los else v >= lo)
        if hi is not None:
            ok = ok and (v < hi if his else v <= hi)
        return ok

    def rel(d, r):
        a, op, b = r
        return d[a] < d[b] if op == "<" else d[a] <= d[b]
    bad = any(not indom(k, v) for k, v in kw.items()) or any(a in kw and b in kw and not rel(kw, (a, op, b)) for a, op, b in CONST_RELATIONS)
    raised = False
    out = None
    with warnings.catch_warnings(record=True):
        warnings.simplefilter("always")
        try:
            out = _set_default_constants(**kw)
        except ValueError:
            raised = True
    problems = []
    if raised != bad:
        problems.append(f"ValueError raised={raised} but a documented restriction is violated={bad}")
    if out is not None:
        if not all(indom(k, out[k]) for k in CONST_DOMAINS) or not all(rel(out, r) for r in CONST_RELATIONS):
            problems.append("completed constants violate a documented domain/relation")
    return {"reproduced": bool(problems), "observed": {"supplied": kw, "raised": raised, "completed": out}, "problems": problems}


# ---- Problem.__call__ -------------------------------------------------------------------------------------
def problem_call(**inp):
    """Rebuild a filter/history state, run the real Problem.__call__ with callees returning the model's values, and
    check ALIGN / BOUND / COVER and the history natively."""
    from cobyqa.problem import Problem
    if not isinstance(inp.get("F"), list) or not isinstance(inp.get("M"), list):
        return {"reproduced": False, "reason": "model too large to concretise"}
    Fl = [F(v) for v in inp.get("F", [])]
    Ml = [F(v) for v in inp.get("M", [])]
    if isinstance(inp.get("H"), list):
        H = [(F(a), F(b)) for a, b in inp["H"]]
    else:
        # the model's history is long: keep the part that matters (the retained entries and the uncovered point p)
        H = list(zip(Fl, Ml)) + [(F(inp["cover_p_f"]), F(inp["cover_p_m"]))]
    fnew, mnew = F(inp["fun_raw"]), F(inp["maxcv_raw"])
    fs = int(inp["filter_size"])
    pb = Problem.__new__(Problem)
    pb._fun_filter, pb._maxcv_filter = list(Fl), list(Ml)
    pb._x_filter = [np.array([float(i)]) for i in (inp.get("X") or range(len(Fl)))]
    pb._filter_size = fs
    pb._store_history = bool(inp.get("store_history", False))
    pb._history_size = int(inp.get("history_size", 1))
    FH = [F(v) for v in (inp.get("FH") or [])] if isinstance(inp.get("FH"), list) else []
    MH = [F(v) for v in (inp.get("MH") or [])] if isinstance(inp.get("MH"), list) else []
    pb._fun_history, pb._maxcv_history, pb._x_history = list(FH), list(MH), [None] * len(FH)
    pb._callback = None
    pb._feasibility_tol = 1e-8
    pb.build_x = lambda x: x
    pb._obj = lambda x: fnew
    pb._nonlinear = lambda x: (np.array([]), np.array([]))
    pb.maxcv = lambda x, a=None, b=None: mnew
    ob = inp.get("vcx_obligation", "")
    if "n_eval" in ob:
        from cobyqa.problem import ObjectiveFunction
        fun_none = bool(inp.get("fun_is_none"))
        pb._obj = ObjectiveFunction(None if fun_none else (lambda x: fnew), False, False)
        pb._n_eval = 0
        before = pb.n_eval
        pb(np.array([float(len(H))]), 0.0)
        after = pb.n_eval
        return {"reproduced": after != before + 1, "observed": {"fun_is_none": fun_none, "n_eval_before": before, "n_eval_after": after},
                "required": "Problem.n_eval increases by exactly one per evaluated point"}
    pb._n_eval = 0
    pb(np.array([float(len(H))]), 0.0)
    H1 = H + [(fnew, mnew)]
    problems = []
    Fn, Mn = pb._fun_filter, pb._maxcv_filter
    if "align" in ob and not (len(Fn) == len(Mn) == len(pb._x_filter) and len(Fn) >= 1):
        problems.append("filter lists not aligned / empty")
    if "bound" in ob and len(Fn) > fs:
        problems.append("filter longer than filter_size")
    if "cover" in ob:
        for (fp, mp) in H1:
            if fp == fp and mp == mp:
                if not any(fq == fq and mq == mq and fq <= fp and mq <= mp for fq, mq in zip(Fn, Mn)):
                    problems.append(f"fully defined evaluated point (f={fp}, maxcv={mp}) is not covered by the filter {list(zip(Fn, Mn))}")
                    break
    if "history" in ob and pb._store_history:
        k = min(len(H1), pb._history_size)
        exp = H1[-k:]
        got = list(zip(pb._fun_history, pb._maxcv_history))
        same = len(got) == len(exp) and all((a == c or (a != a and c != c)) and (b == d or (b != b and d != d)) for (a, b), (c, d) in zip(got, exp))
        if len(FH) == min(len(H), pb._history_size) and not same:
            problems.append(f"history {got} is not the last {k} evaluations {exp}")
    return {"reproduced": bool(problems), "problems": problems,
            "observed": {"filter_before": list(zip(Fl, Ml)), "new": (fnew, mnew), "filter_after": list(zip(Fn, Mn))}}


# ---- Problem.best_eval ----------------------------------------------------------------------------------------
def _select_spec(Fl, Ml, tol, pen):
    """Index that the documented selection rule prescribes (written from the property statement)."""
    n = len(Fl)
    isn = lambda v: v != v
    feas = [(not isn(m)) and m <= tol for m in Ml]
    deff = [not isn(f) for f in Fl]
    fin = [(not isn(m)) and math.isfinite(m) for m in Ml]

    def last_of(keys, idx):
        best = None
        for j in idx:
            if best is None or keys(j) <= keys(best):
                best = j
        return best
    fd = [j for j in range(n) if feas[j] and deff[j]]
    if fd:
        return last_of(lambda j: (Fl[j], Ml[j]), fd)
    fe = [j for j in range(n) if feas[j]]
    if fe:
        return fe[-1]
    with np.errstate(all="ignore"):
        mer = [float(np.float64(Fl[j]) + np.float64(pen) * np.float64(Ml[j])) if fin[j] else math.nan for j in range(n)]
    md = [j for j in range(n) if fin[j] and not isn(mer[j])]
    if any(fin):
        if md:
            return last_of(lambda j: (mer[j], Ml[j], Fl[j] if deff[j] else math.inf), md)
        dm = [j for j in range(n) if not isn(Ml[j])]
        return last_of(lambda j: (Ml[j],), dm)
    df = [j for j in range(n) if deff[j]]
    if df:
        return last_of(lambda j: (Fl[j],), df)
    return n - 1


def best_eval(**inp):
    from cobyqa.problem import Problem
    if not isinstance(inp.get("F"), list) or not isinstance(inp.get("M"), list) or not inp["F"]:
        return {"reproduced": False, "reason": "model too large / empty filter"}
    Fl = [F(v) for v in inp["F"]]
    Ml = [F(v) for v in inp["M"]]
    n = min(len(Fl), len(Ml))
    Fl, Ml = Fl[:n], Ml[:n]
    tol, pen = F(inp["feasibility_tol"]), F(inp["penalty"])
    pb = Problem.__new__(Problem)
    pb._fun_filter, pb._maxcv_filter = list(Fl), list(Ml)
    pb._x_filter = [np.array([float(i)]) for i in range(n)]
    pb._feasibility_tol = tol

    class _B:
        def project(self, x): return x
    pb._bounds = _B()
    exp = _select_spec(Fl, Ml, tol, pen)
    try:
        with np.errstate(all="ignore"):
            x, f, m = pb.best_eval(pen)
    except Exception as e:  # noqa: best_eval is total on a non-empty filter (C08)
        return {"reproduced": True, "observed": {"filter": list(zip(Fl, Ml)), "tol": tol, "penalty": pen, "exception": repr(e),
                                                 "prescribed_index": exp}}
    got = int(x[0])
    return {"reproduced": got != exp, "observed": {"filter": list(zip(Fl, Ml)), "tol": tol, "penalty": pen, "returned_index": got,
                                                   "prescribed_index": exp}}


# ---- C19: invalid / unknown constants are reported for every kind of problem ---------------------------------------------
def minimize_validation_order(**inp):
    """Solve a problem of the kind the counter-model describes (inconsistent bounds / every variable fixed / ordinary) with an
    out-of-domain constant and with an unknown one: the first must raise ValueError, the second must warn."""
    import warnings
    from cobyqa import minimize
    feas = bool(inp.get("bounds_feasible", True))
    n = int(inp.get("n", 1))
    if not feas:
        bounds, kind = [(1.0, 0.0), (0.0, 1.0)], "inconsistent bounds"
    elif n == 0:
        bounds, kind = [(0.5, 0.5), (0.25, 0.25)], "every variable fixed"
    else:
        bounds, kind = [(-1.0, 1.0), (-1.0, 1.0)], "ordinary problem"
    fun = lambda x: float((x[0] - 0.3) ** 2 + x[1] ** 2)
    obs = {"problem": kind}
    try:
        r = minimize(fun, [0.5, 0.25], bounds=bounds, options={"maxfev": 20}, low_ratio=2.0)
        obs["invalid_constant"] = f"accepted: minimize returned status {r.status}"
    except ValueError as e:
        obs["invalid_constant"] = "ValueError"
    with warnings.catch_warnings(record=True) as w:
        warnings.simplefilter("always")
        minimize(fun, [0.5, 0.25], bounds=bounds, options={"maxfev": 20}, not_a_constant=1.0)
    obs["unknown_constant"] = "warned" if any(issubclass(x.category, RuntimeWarning) for x in w) else "no warning"
    bad = obs["invalid_constant"] != "ValueError" or obs["unknown_constant"] != "warned"
    return {"reproduced": bad, "observed": obs, "required": "low_ratio=2.0 raises ValueError and an unknown constant gives a RuntimeWarning"}


# ---- C17: NonlinearConstraints.__call__ against the row-by-row statement ------------------------------------------------
def nonlinear_call(**inp):
    """Constraint objects with the limits of the counter-model and constant value functions; the real NonlinearConstraints is
    called twice (two points) and its rows are compared with the statement of C17 computed independently here."""
    import re
    from scipy.optimize import NonlinearConstraint
    objs = {}
    for k, v in inp.items():
        mt = re.match(r"(lb|ub|val)(\d+)(\W.*)?$", k)
        if mt and isinstance(v, list):
            objs.setdefault(int(mt.group(2)), {}).setdefault(mt.group(1), []).append(np.array([F(e) if e is not None else 0.0 for e in v], dtype=float))
    cons, data = [], []
    for k in sorted(objs):
        o = objs[k]
        if "lb" not in o or "ub" not in o:
            continue
        lb, ub = o["lb"][0], o["ub"][0]
        m = len(lb)
        if m == 0 or len(ub) != m:
            continue
        vals = [v for v in o.get("val", []) if len(v) == m] or [np.zeros(m)]
        calls = []

        def fun(x, vals=vals, calls=calls):
            calls.append(1)
            return vals[min(len(calls), len(vals)) - 1].copy()
        cons.append(NonlinearConstraint(fun, lb, ub))
        data.append((lb, ub, vals, calls))
    if not cons:
        return {"reproduced": False, "reason": "the counter-model has no non-empty constraint object"}
    r = _nonlinear_call_run(cons, data, None)
    if r["reproduced"]:
        return r
    # second attempt: the tolerance of utils.get_arrays_tol is a callee result that the contract leaves free (any value >= 0); replay
    # with the counter-model's value for it, and say so
    tols = [F(v) for k, v in sorted(inp.items()) if re.match(r"tol(\W.*)?$", k) and not isinstance(v, (list, dict)) and v is not None]
    if tols:
        for d in data:
            del d[3][:]
        r2 = _nonlinear_call_run(cons, data, tols)
        if r2["reproduced"]:
            r2["observed"]["get_arrays_tol_replaced_by_model_values"] = tols
            return r2
    return r


def _nonlinear_call_run(cons, data, tols):
    from cobyqa.problem import NonlinearConstraints
    import cobyqa.problem as P
    from cobyqa.utils import get_arrays_tol as real_tol
    used = []

    def tol_fn(*arrays):
        t = tols[min(len(used), len(tols) - 1)] if tols else real_tol(*arrays)
        used.append(t)
        return t
    saved = P.get_arrays_tol
    P.get_arrays_tol = tol_fn
    try:
        return _nonlinear_call_compare(NonlinearConstraints(cons, False, False), data, used)
    finally:
        P.get_arrays_tol = saved


def _nonlinear_call_compare(nc, data, used):
    obs = {"objects": [{"lb": d[0].tolist(), "ub": d[1].tolist()} for d in data]}
    try:
        with np.errstate(all="ignore"):
            for rnd, x in enumerate((np.array([0.5, 0.25]), np.array([0.75, -1.0]))):
                cub, ceq = nc(x)
                exp_ub, exp_eq = [], []
                for k, (lb, ub, vals, calls) in enumerate(data):
                    v = vals[min(len(calls), len(vals)) - 1]
                    eq = np.abs(ub - lb) <= used[k]
                    lo = ~eq & (lb > -np.inf)
                    hi = ~eq & (ub < np.inf)
                    exp_ub += [lb[lo] - v[lo], v[hi] - ub[hi]]
                    exp_eq += [v[eq] - 0.5 * (lb[eq] + ub[eq])]
                exp_ub, exp_eq = np.concatenate(exp_ub), np.concatenate(exp_eq)
                if not (np.array_equal(cub, exp_ub, equal_nan=True) and np.array_equal(ceq, exp_eq, equal_nan=True)):
                    obs.update(call=rnd + 1, c_ub=np.asarray(cub).tolist(), expected_c_ub=exp_ub.tolist(), c_eq=np.asarray(ceq).tolist(),
                               expected_c_eq=exp_eq.tolist())
                    return {"reproduced": True, "observed": obs, "required": "rows: lb - value (finite lb), value - ub (finite ub), "
                            "value - (lb+ub)/2 (lb == ub), per object in order"}
    except Exception as e:  # an exception escaping NonlinearConstraints.__call__ for valid limits is itself a violation (C08)
        obs["exception"] = repr(e)
        return {"reproduced": True, "observed": obs, "required": "no exception"}
    return {"reproduced": False, "observed": obs}


# ---- C15 / C16 / C01: one concrete call of a subproblem solver that failed a run-time clause in a bounded unit -------------------
def subsolver_case(solver=None, clause=None, case=None, **_):
    from contracts.subsolver_clauses import CLAUSES
    d = {}
    for k, v in case.items():
        if isinstance(v, list):
            a = np.array(v, dtype=float)
            if k in ("aub", "aeq", "H", "xpt") and a.ndim == 1:
                a = a.reshape(0, int(case["n"])) if k in ("aub", "aeq") else a.reshape(int(case["n"]), -1)
            d[k] = a
        else:
            d[k] = v
    d.pop("exception", None)
    with np.errstate(all="ignore"):
        try:
            res = dict(CLAUSES[solver](d))
            res[f"C15.{solver}.returns_without_exception"] = True
        except Exception as e:  # noqa
            res = {f"C15.{solver}.returns_without_exception": False, "exception": repr(e)}
    return {"reproduced": res.get(clause) is False, "observed": {"clauses": res}, "required": clause}


# ---- C01: Interpolation.__init__ on concrete floats (initial points inside the bounds up to rounding) -------------------------------
def interpolation_points_inside(xl=None, xu=None, x0=None, radius_init=1.0, npt=None, **_):
    """Build the real Interpolation for the given bounds / starting point (already inside the bounds) and check every initial
    interpolation point against the bounds, up to rounding (1e-12 relative to the magnitudes involved)."""
    from cobyqa.models import Interpolation
    from cobyqa.settings import Options
    import types
    xl, xu, x0 = (np.array([F(e) for e in v], dtype=float) for v in (xl, xu, x0))
    n = x0.size
    npt = int(npt) if npt is not None else 2 * n + 1
    pb = types.SimpleNamespace(bounds=types.SimpleNamespace(xl=xl, xu=xu), x0=x0, n=n)
    opts = {Options.DEBUG.value: False, Options.RHOBEG.value: float(F(radius_init)), Options.RHOEND.value: 1e-6 * float(F(radius_init)),
            Options.NPT.value: npt}
    ip = Interpolation(pb, opts)
    pts = ip.x_base[:, np.newaxis] + ip.xpt
    scale = 1.0 + np.abs(xl) + np.abs(xu) + opts[Options.RHOBEG.value]
    tol = 1e-12 * np.where(np.isfinite(scale), scale, 1.0)
    out = np.maximum(np.max(xl[:, np.newaxis] - pts, axis=1), np.max(pts - xu[:, np.newaxis], axis=1))
    bad = bool(np.any(out > tol))
    return {"reproduced": bad, "observed": {"x_base": ip.x_base.tolist(), "radius": opts[Options.RHOBEG.value],
                                            "worst_excursion": float(np.max(out)), "points": pts.T.tolist() if bad else None},
            "required": "every initial interpolation point inside [xl, xu] up to rounding"}


# ---- C17: utils.get_arrays_tol on the arrays of a counter-model ------------------------------------------------------------------------
def arrays_tol(**inp):
    import re
    from cobyqa.utils import get_arrays_tol
    arrs = [np.array([F(e) if e is not None else 0.0 for e in v], dtype=float)
            for k, v in sorted(inp.items()) if re.match(r"a\d+(\W.*)?$", k) and isinstance(v, list)]
    if not arrs:
        return {"reproduced": False, "reason": "no array in the counter-model"}
    with np.errstate(all="ignore"):
        tol = get_arrays_tol(*arrs)
    ok = bool(tol == tol and tol > 0)
    return {"reproduced": not ok, "observed": {"arrays": [a.tolist() for a in arrs], "tolerance": float(tol)},
            "required": "a defined positive tolerance"}


# ---- C03: the finite filter of Problem.__call__ on a scripted sequence of (objective, violation) pairs ---------------------------------
def _dominated(fn, mn, f, m):
    """is the retained entry (f, m) to be discarded when (fn, mn) enters the filter?  (dominance as documented: a fully defined newcomer
    discards every entry with a NaN and every entry it is at least as good as in both values; a newcomer with a NaN objective /
    violation only discards entries with a NaN in the same place)"""
    if fn != fn:
        return f != f
    if mn != mn:
        return m != m
    return f != f or m != m or (fn <= f and mn <= m)


def finite_filter(seq=None, filter_size=2, **_):
    """Feed the scripted pairs through the real Problem and check after every call: ALIGN, BOUND, entries are evaluated pairs in
    evaluation order, and EVICT: an entry that the newcomer does not dominate is dropped only if the filter is full afterwards."""
    from scipy.optimize import Bounds, NonlinearConstraint
    from cobyqa.problem import ObjectiveFunction, BoundConstraints, LinearConstraints, NonlinearConstraints, Problem
    seq = [(F(a), F(b)) for a, b in seq]
    state = {"k": 0}
    obj = ObjectiveFunction(lambda x: seq[state["k"]][0], False, False)
    nlc = NonlinearConstraints([NonlinearConstraint(lambda x: np.array([seq[state["k"]][1]]), -np.inf, 0.0)], False, False)
    pb = Problem(obj, np.zeros(1), BoundConstraints(Bounds([-np.inf], [np.inf])), LinearConstraints([], 1, False), nlc, None, 1e-8, False, False, 1,
                 int(filter_size), False)
    same = lambda a, b: a == b or (a != a and b != b)
    with np.errstate(all="ignore"):
        for k, (f, m) in enumerate(seq):
            state["k"] = k
            before = list(zip([float(v) for v in pb._fun_filter], [float(v) for v in pb._maxcv_filter], [float(x[0]) for x in pb._x_filter]))
            pb(np.array([float(k)]))
            mt = max(m, 0.0) if m == m else m                      # the violation of the scripted constraint value
            after = list(zip([float(v) for v in pb._fun_filter], [float(v) for v in pb._maxcv_filter], [float(x[0]) for x in pb._x_filter]))
            obs = {"call": k, "pair": [f, mt], "filter_before": before, "filter_after": after, "filter_size": filter_size}
            if not (len(pb._fun_filter) == len(pb._maxcv_filter) == len(pb._x_filter) and 1 <= len(after) <= filter_size):
                return {"reproduced": True, "observed": obs, "required": "aligned lists, 1 <= len <= filter_size"}
            ids = [int(e[2]) for e in after]
            if ids != sorted(set(ids)) or any(not (same(e[0], seq[int(e[2])][0])) for e in after):
                return {"reproduced": True, "observed": obs, "required": "entries are evaluated pairs, in evaluation order"}
            included = any(int(e[2]) == k for e in after)
            if included:
                lost = [e for e in before if not any(int(a[2]) == int(e[2]) for a in after) and not _dominated(f, mt, e[0], e[1])]
                if lost and len(after) < filter_size:
                    obs["lost_although_not_dominated"] = lost
                    return {"reproduced": True, "observed": obs,
                            "required": "an entry the newcomer does not dominate is evicted only when the filter is full afterwards"}
            elif [int(e[2]) for e in after] != [int(e[2]) for e in before]:
                return {"reproduced": True, "observed": obs, "required": "a rejected point leaves the filter unchanged"}
    return {"reproduced": False}


# ---- C18: TrustRegion.set_best_index on concrete value tables ---------------------------------------------------------------------------
def best_index_audit(fun=None, cub=None, ceq=None, penalty=0.0, best0=0, **_):
    """A TrustRegion shell around concrete tables (npt points; nonlinear inequality / equality values only, no bounds or linear
    constraints so that violation = [max(cub, 0), |ceq|]); after the real set_best_index the centre must have the least merit value up
    to the rounding tolerance the method itself uses, and among the points whose merit value is within that tolerance of the centre's
    none may have been passed over in favour of a larger violation at the moment it was compared (audited by replaying the documented
    rule on independently computed merit values / violations)."""
    import types
    from cobyqa.framework import TrustRegion
    fun = np.array([F(v) for v in fun], dtype=float)
    cub = np.array([[F(v) for v in r] for r in cub], dtype=float).reshape(len(fun), -1)
    ceq = np.array([[F(v) for v in r] for r in ceq], dtype=float).reshape(len(fun), -1)
    npt, n = len(fun), 2
    pen = float(F(penalty))

    def viol(k):
        return np.concatenate([np.maximum(cub[k], 0.0), np.abs(ceq[k])])

    class PB:
        def violation(self, x, cub_val=None, ceq_val=None):
            return np.concatenate([np.maximum(cub_val, 0.0), np.abs(ceq_val)])

        def maxcv(self, x, cub_val=None, ceq_val=None):
            return float(np.max(self.violation(x, cub_val, ceq_val), initial=0.0))
    tr = TrustRegion.__new__(TrustRegion)
    tr._pb = PB()
    tr._penalty = pen
    tr._best_index = int(best0)
    xpt = np.arange(npt * n, dtype=float).reshape(n, npt)
    tr._models = types.SimpleNamespace(n=n, npt=npt, fun_val=fun, cub_val=cub, ceq_val=ceq,
                                       interpolation=types.SimpleNamespace(point=lambda k: xpt[:, k].copy(), x_base=np.zeros(n), xpt=xpt))
    tr.set_best_index()
    got = int(tr._best_index)
    # independent replay of the documented rule
    merit = [fun[k] + (pen * np.linalg.norm(viol(k)) if pen > 0 and np.count_nonzero(viol(k)) else 0.0) for k in range(npt)]
    rv = [float(np.max(viol(k), initial=0.0)) for k in range(npt)]
    b = int(best0)
    mb, rb = merit[b], rv[b]
    tol = 10.0 * np.finfo(float).eps * max(n, npt) * max(abs(mb), 1.0)
    for k in range(npt):
        if k != int(best0) and (merit[k] < mb or (merit[k] < mb + tol and rv[k] < rb)):
            b, mb, rb = k, merit[k], rv[k]
    ok = got == b
    return {"reproduced": not ok, "observed": {"best_index": got, "expected": b, "merit": [float(v) for v in merit], "violation": rv},
            "required": "the centre is the least-merit point, ties within rounding to the smaller violation (documented scan order)"}


# ---- C12-C14: the SOLVE contract that Mode B assumes (Quadratic.solve_systems returns the solution of the interpolation system and
# ---- leaves its right-hand side alone), on concrete floats --------------------------------------------------------------------------
def solve_systems_check(xpt=None, rhs=None, **_):
    from cobyqa.models import Quadratic, Interpolation
    xpt = np.array(xpt, dtype=float)
    rhs = np.array(rhs, dtype=float)
    n, npt = xpt.shape
    it = Interpolation.__new__(Interpolation)
    it._debug = False
    it._x_base = np.zeros(n)
    it._xpt = xpt.copy()
    it._lhs_cache = None
    rhs0 = rhs.copy()
    sol, ill = Quadratic.solve_systems(it, rhs)
    obs = {"n": n, "npt": npt}
    if not np.array_equal(rhs, rhs0):
        obs["rhs_modified_by"] = float(np.max(np.abs(rhs - rhs0)))
        return {"reproduced": True, "observed": obs, "required": "solve_systems leaves the right-hand sides of its caller untouched"}
    from cobyqa.models import build_system
    W = np.zeros((npt + n + 1, npt + n + 1))
    W[:npt, :npt] = 0.5 * (xpt.T @ xpt) ** 2.0
    W[:npt, npt] = 1.0
    W[npt, :npt] = 1.0
    W[:npt, npt + 1:] = xpt.T
    W[npt + 1:, :npt] = xpt
    am, rs, _ = build_system(it)
    # (i) the matrix built is R W R for the scaling R it reports (so that R a^-1 R is the inverse of the theoretical matrix W)
    RWR = rs[:, np.newaxis] * W * rs[np.newaxis, :]
    dev = float(np.max(np.abs(am - RWR) / (np.abs(RWR) + 1e-300 + 1e-12 * np.max(np.abs(RWR)))))
    # (ii) the vectors returned solve that scaled system up to rounding x its conditioning
    z = sol / rs[:, np.newaxis]
    cond = float(np.linalg.cond(am))
    res = float(np.max(np.abs(am @ z - rs[:, np.newaxis] * rhs0)) / (np.max(np.abs(am)) * np.max(np.abs(z)) + np.max(np.abs(rs[:, np.newaxis] * rhs0)) + 1e-300))
    obs.update(cond_scaled=cond, residual_scaled=res, matrix_deviation=dev, ill_conditioned=bool(np.any(ill)))
    bad = bool(dev > 1e-9 or (cond < 1e10 and not np.any(ill) and res > 1e-13 * max(1.0, cond)))
    return {"reproduced": bad, "observed": obs, "required": "the matrix built is R W R and the returned vectors solve the scaled system up to rounding x conditioning"}
