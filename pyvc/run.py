"""CLI: python3-vt -m pyvc.run <Cnn> [--tier quick|thorough] [--replay FILE] [--units a,b] [--list]

Exit 0 held / 1 VIOLATION / 2 undecided / 3 engine failure.
"""
import argparse
import concurrent.futures as cf
import hashlib
import importlib
import json
import multiprocessing as mp
import os
import pkgutil
import subprocess
import sys
import time

VERIF = os.path.dirname(os.path.dirname(os.path.abspath(__file__)))
sys.path.insert(0, VERIF)

from pyvc.transform import ensure_repo_on_path, repo_root, function_source  # noqa: E402
from pyvc.unit import run_unit  # noqa: E402

GENERAL_ASSUMPTIONS = [
    "A1 CPython executes the mechanically transformed source (and/or/not lifting, loop cuts at sidecar invariants, "
    "all/any->quantifier, docstrings dropped) as it executes the original; differential-tested, not proved",
    "A2 the proxy semantics of builtins / NumPy primitives in pyvc (values.py, vecs.py, npshim.py) match the libraries; "
    "differential-tested, not proved",
    "A9 z3 5.1 / cvc5 / sympy are sound",
    "A8 partial correctness only: termination of callees and library routines is not verified",
]


def load_units():
    import contracts
    units = []
    for mi in pkgutil.iter_modules(contracts.__path__):
        if mi.name.startswith("_") or mi.name.startswith("replay"):
            continue
        m = importlib.import_module("contracts." + mi.name)
        units.extend(getattr(m, "UNITS", []))
    return units


_UNITS = None


def _work(args):
    global _UNITS
    name, tier, prefix, split = args[:4]
    budget = args[4] if len(args) > 4 else 0
    if _UNITS is None:
        _UNITS = {u.name: u for u in load_units()}
    return run_unit(_UNITS[name], tier, prefix=tuple(prefix), split=split, budget=budget)


def merge(a, b):
    """Merge the summary of a sub-tree exploration into the unit's summary."""
    a["obligations"].extend(b["obligations"])
    for k in ("paths", "pruned", "solver_s"):
        a[k] += b[k]
    a["wall_s"] = round(a.get("wall_s", 0) + b.get("wall_s", 0), 3)
    if b["error"] and not a["error"]:
        a["error"], a["error_kind"] = b["error"], b["error_kind"]
    return a


def known_findings():
    p = os.path.join(VERIF, "known_findings.json")
    if not os.path.exists(p):
        return {"findings": [], "fixed": []}
    with open(p) as fh:
        return json.load(fh)


def match_finding(kf, prop, rec):
    for f in kf.get("findings", []):
        if f.get("property") != prop:
            continue
        if f.get("obligation") not in (rec["name"], rec["name"].split("[")[0]):     # bounded clauses carry "[N cases]"
            continue
        pp = f.get("path")
        if pp is not None and pp != rec["path"]:
            continue
        return f
    return None


def native_replay(replay_file):
    from pyvc.unit import native_replay_file
    return native_replay_file(replay_file)


def main(argv=None):
    ap = argparse.ArgumentParser()
    ap.add_argument("prop")
    ap.add_argument("--tier", default=os.environ.get("VERIF_TIER", "quick"))
    ap.add_argument("--replay")
    ap.add_argument("--units")
    ap.add_argument("--list", action="store_true")
    ap.add_argument("--jobs", type=int, default=min(16, os.cpu_count() or 4))
    ap.add_argument("-v", action="store_true")
    a = ap.parse_args(argv)
    tier = a.tier if a.tier in ("quick", "thorough") else "quick"
    os.environ["VERIF_TIER"] = tier          # read by the bounded units and Mode B (numbers of cases, dimensions); inherited by the workers
    seed = int(os.environ.get("VERIF_SEED", "0") or 0)
    prop = a.prop
    t0 = time.time()
    ensure_repo_on_path()

    if a.replay:
        r = native_replay(a.replay)
        print(json.dumps(r, indent=1))
        return 1 if r.get("reproduced") else 0

    units = [u for u in load_units() if prop in u.props or prop == "ALL"]
    if a.units:
        sel = set(a.units.split(","))
        units = [u for u in units if u.name in sel]
    if tier == "quick":
        units = [u for u in units if not getattr(u, "thorough_only", False)]
    if a.list:
        for u in units:
            print(u.name, u.props, u.fmodel, "bounded:" + str(u.bounded) if u.bounded else "")
        return 0
    if not units:
        print(f"pyvc: no units for {prop}")
        return 3

    ctxm = mp.get_context("fork")
    byunit = {}
    crash = lambda nm, e: {"unit": nm, "error": "worker crashed: " + repr(e), "error_kind": "engine", "obligations": [], "paths": 0,
                           "pruned": 0, "functions": [], "bounded": None, "fmodel": "?", "solver_s": 0, "canary": None,
                           "assumptions": [], "props": [prop], "replay": None, "wall_s": 0, "pending": []}
    budgets = {u.name: getattr(u, "path_budget", 0) for u in units}      # work sharing for units with few, expensive paths
    with cf.ProcessPoolExecutor(max_workers=max(1, a.jobs), mp_context=ctxm) as ex:
        futs = {ex.submit(_work, (u.name, tier, (), a.jobs * getattr(u, "split_factor", 1) if getattr(u, "parallel", False) else 0)): u.name for u in units}
        while futs:
            done, _ = cf.wait(list(futs), return_when=cf.FIRST_COMPLETED)
            for f in done:
                nm = futs.pop(f)
                try:
                    r = f.result()
                except Exception as e:  # worker crashed
                    r = crash(nm, e)
                for pre in r.pop("pending", []):
                    futs[ex.submit(_work, (nm, tier, tuple(pre), 0, budgets.get(nm, 0)))] = nm
                if nm in byunit:
                    merge(byunit[nm], r)
                else:
                    byunit[nm] = r
    results = list(byunit.values())
    results.sort(key=lambda r: r["unit"])

    kf = known_findings()
    proved = bounded = 0
    n_obl = n_dis = 0
    nb_obl = nb_dis = 0
    violations, undecided, engine_errors, known = [], [], [], []
    samples = []
    backends = {}
    per_unit = []
    assumptions = list(GENERAL_ASSUMPTIONS)
    # optional invariants (core.Ctx.assume_optional): an invariant is *required* iff some obligation could only be discharged with
    # it; the obligations establishing a non-required invariant are reported but decide nothing
    needed = sorted({n for r in results for o in r["obligations"] for n in o.get("needs", [])})
    provided = {o["provides"] for r in results for o in r["obligations"] if o.get("provides")}
    optional_report = {"required": needed, "established_by": {}, "not_required_and_not_maintained": []}
    for r in results:
        if r["error"]:
            (undecided if r["error_kind"] == "stale" else engine_errors).append((r["unit"], r["error"]))
        if r.get("canary") == "VACUOUS":
            engine_errors.append((r["unit"], "vacuous: the unit's precondition / first path condition is unsatisfiable"))
        mine = [o for o in r["obligations"] if prop in o["props"] or prop == "ALL"]
        if not mine and not r["error"]:
            engine_errors.append((r["unit"], "unit produced zero obligations for this property"))
        for a_ in r.get("assumptions", []):
            if a_ not in assumptions:
                assumptions.append(a_)
        u_dis = 0
        for o in mine:
            backends[o["backend"]] = backends.get(o["backend"], 0) + 1
            isb = bool(r["bounded"]) or o["kind"] == "bounded"
            if isb:
                nb_obl += 1
            else:
                n_obl += 1
            if o.get("provides"):
                optional_report["established_by"].setdefault(o["provides"], set()).add(o["name"])
                if o["provides"] not in needed and o["verdict"] != "unsat":
                    # nothing relies on this invariant in the current tree: its loss is not a violation of the property
                    if o["name"] not in optional_report["not_required_and_not_maintained"]:
                        optional_report["not_required_and_not_maintained"].append(o["name"])
                    if isb:
                        nb_obl -= 1
                    else:
                        n_obl -= 1
                    continue
            missing = [n for n in o.get("needs", []) if n not in provided]
            if missing:
                undecided.append((r["unit"], f"{o['name']} [{o['path']}]: holds only under the optional invariant {missing}, which no unit "
                                             "of this check establishes"))
                continue
            if o["verdict"] == "also-failing":
                continue        # same named obligation already refuted on another path of this unit (reported once)
            if o["verdict"] == "unsat":
                u_dis += 1
                if isb:
                    nb_dis += 1
                else:
                    n_dis += 1
            elif o["verdict"] == "candidate":
                # a model of a *weakened* query: a violation only if the native replay reproduces it on the real code
                ok = False
                if r.get("replay") and o.get("replay_inputs") is not None and "candidate_replayed" not in o:
                    os.makedirs(os.path.join(VERIF, "replays"), exist_ok=True)
                    tmp = os.path.join(VERIF, "replays", f"candidate_{prop}_{os.getpid()}.json")
                    with open(tmp, "w") as fh:
                        json.dump({"repo": repo_root(), "native": {"module": r["replay"][0], "function": r["replay"][1],
                                                                    "inputs": o["replay_inputs"]}}, fh, default=str)
                    ok = bool(native_replay(tmp).get("reproduced"))
                    os.unlink(tmp)
                if ok:
                    f = match_finding(kf, prop, o)
                    if f is not None:
                        known.append((o, f, r))
                    else:
                        violations.append((o, r))
                else:
                    undecided.append((r["unit"], f"{o['name']} [{o['path']}]: solver returned unknown (candidate model did not replay)"))
            elif o["verdict"] == "sat":
                f = match_finding(kf, prop, o)
                if f is not None:
                    known.append((o, f, r))
                else:
                    violations.append((o, r))
            else:
                undecided.append((r["unit"], f"{o['name']} [{o['path']}]: solver returned unknown"))
        per_unit.append({"unit": r["unit"], "functions": r["functions"], "float_model": r["fmodel"], "bounded": r["bounded"],
                         "paths": r["paths"], "pruned_infeasible": r["pruned"], "obligations": len(mine), "discharged": u_dis,
                         "solver_s": round(r["solver_s"], 3), "wall_s": r.get("wall_s"), "canary": r.get("canary")})
        for o in mine[:2]:
            samples.append({"unit": r["unit"], "obligation": o["name"], "path": o["path"], "verdict": o["verdict"],
                            "backend": o["backend"], "secs": o["secs"], "float_model": o["fmodel"]})

    # ---- verdict lines -------------------------------------------------------------------------
    os.makedirs(os.path.join(VERIF, "evidence"), exist_ok=True)
    os.makedirs(os.path.join(VERIF, "replays"), exist_ok=True)
    exit_code = 0
    for o, f, r in known:
        print(f"KNOWN-FINDING: property={prop} {f.get('what', o['name'])}")
    vio_lines = []
    seen = set()
    for o, r in violations:
        key = o["name"]
        if key in seen:
            continue
        seen.add(key)
        h = hashlib.sha1((o["name"] + o["path"]).encode()).hexdigest()[:10]
        rp = os.path.join(VERIF, "replays", f"{prop}_{h}.json")
        doc = {"property": prop, "unit": r["unit"], "obligation": o["name"], "path": o["path"], "note": o.get("note"),
               "solver": {"verdict": "sat", "backend": o["backend"], "model": o["model"]},
               "float_model": o["fmodel"], "repo": repo_root(), "native": None}
        if r.get("replay") and o.get("replay_inputs") is not None:
            doc["native"] = {"module": r["replay"][0], "function": r["replay"][1], "inputs": o["replay_inputs"]}
        with open(rp, "w") as fh:
            json.dump(doc, fh, indent=1, default=str)
        suffix = " no-failing-input-found"
        if doc["native"]:
            res = native_replay(rp)
            doc["native_result"] = res
            with open(rp, "w") as fh:
                json.dump(doc, fh, indent=1, default=str)
            if res.get("reproduced"):
                suffix = ""
        line = f"VIOLATION property={prop} replay={rp}{suffix}"
        vio_lines.append(line)
        print(f"# failed obligation {o['name']} on path [{o['path']}] of unit {r['unit']}" + (f" ({o['note'][:300]})" if o.get("note") else ""))
        print(line)
        exit_code = 1
    for nm in optional_report["not_required_and_not_maintained"]:
        print(f"# note: optional invariant obligation {nm} does not hold, and no obligation of this check relies on the invariant")
    if engine_errors:
        for u, e in engine_errors:
            print(f"# ENGINE {u}: {e}", file=sys.stderr)
        if exit_code == 0:
            exit_code = 3
    if undecided and exit_code == 0:
        for u, e in undecided:
            print(f"# UNDECIDED {u}: {e}", file=sys.stderr)
        exit_code = 2

    # properties whose *deciding* clauses are bounded stand-ins are reported at level "other" whatever else was proved
    level = "other" if prop in ("C13", "C14", "C15", "C16") else ("proof" if n_obl > 0 else "other")
    cov = {
        "obligations": n_obl, "discharged": n_dis,
        "checker_cmd": f"./check {prop} --tier {tier}",
        "trusted_base": ["CPython", "pyvc engine (/verif/pyvc)", "z3 5.1", "cvc5 (fallback)"],
        "bounded_obligations": nb_obl, "bounded_discharged": nb_dis,
        "units": per_unit, "backends": backends,
        "functions_under_contract": sorted({f for r in results for f in r["functions"]}),
        "paths_explored": sum(r["paths"] for r in results),
        "solver_s": round(sum(r["solver_s"] for r in results), 3),
        "known_findings": [f.get("what") for _, f, _ in known],
        "optional_invariants": {"required": optional_report["required"],
                                "established_by": {k: sorted(v) for k, v in optional_report["established_by"].items()},
                                "not_required_and_not_maintained": optional_report["not_required_and_not_maintained"]},
        "undecided": [f"{u}: {e}"[:300] for u, e in undecided], "engine_errors": [f"{u}: {e}"[:300] for u, e in engine_errors],
        "samples": samples[:12] or [{"note": "no obligations"}],
        "explanation": "contract-based deductive verification: real function bodies executed on symbolic proxies, "
                       "callees replaced by contracts, every path enumerated, obligations discharged by z3/cvc5; "
                       "`obligations`/`discharged` count unbounded obligations only, bounded stand-ins are counted separately",
        "evaluations": n_obl + nb_obl, "distinct_nontrivial": len({s_["name"] for r in results for s_ in r["obligations"]}),
        "rule": "one evaluation = one obligation instance (named clause x path); distinct = distinct obligation names",
    }
    ev = {"property_id": prop, "tier": tier, "seed": seed, "level": level, "coverage": cov,
          "assumptions": assumptions, "wall_s": round(time.time() - t0, 2), "violations": len(vio_lines)}
    if prop != "ALL":
        # evidence describes /repo itself; runs against a scratch copy (mutants, REPO=...) must not overwrite it
        # ... and a run restricted to some units (--units, a debugging aid) does not describe the property's check either
        if os.path.realpath(repo_root()) == "/repo" and not a.units:
            with open(os.path.join(VERIF, "evidence", f"{prop}.json"), "w") as fh:
                json.dump(ev, fh, indent=1)
    print(f"pyvc {prop} [{tier}]: units={len(results)} paths={cov['paths_explored']} obligations={n_obl} discharged={n_dis} "
          f"bounded={nb_dis}/{nb_obl} known={len(known)} violations={len(vio_lines)} undecided={len(undecided)} "
          f"engine_errors={len(engine_errors)} wall={ev['wall_s']}s exit={exit_code}")
    if a.v:
        for pu in per_unit:
            print("  ", pu)
    return exit_code


if __name__ == "__main__":
    sys.exit(main())
