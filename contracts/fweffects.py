"""TrustRegion methods that compare points / compute merit values and penalties: no hidden evaluation (C06),
penalty stays defined and non-negative (C18.O4), best index stays a valid index (C18.O5, partial)."""
import types
import z3
import numpy as np
from pyvc.core import cur, SB, PathEnd, Unsupported, tobool
from pyvc.unit import Unit, call_expecting
from pyvc.values import SF, SI, it, I, R, B, PINF, NINF, feq
from pyvc.shims import RangeLoop
from pyvc.npshim import NP
from pyvc import vecs
from .common import shadow, sym_constants


class OV:
    """Opaque array value: closed under arithmetic / indexing; only norms and counts are observed."""
    _vcx_symbolic = True
    _vcx_asarray = True
    __array_ufunc__ = None

    def __init__(self, tag="ov"):
        self.tag = tag
        self._norm = None
        self.size = 1

    def _mk(self, *a, **k):
        return OV(self.tag)
    __add__ = __radd__ = __sub__ = __rsub__ = __mul__ = __rmul__ = __neg__ = __matmul__ = __rmatmul__ = __truediv__ = _mk
    __getitem__ = _mk
    T = property(_mk)

    def _vcx_norm(self):
        if self._norm is None:
            self._norm = SF.fresh("norm", nonan=False)
            cur().assume(z3.Or(self._norm.nan, self._norm.r >= 0))
        return self._norm


class NPO(NP):
    """np shim for effect-only runs: structural array builders return opaque values."""
    def block(self, xs):
        return OV("block")

    def maximum(self, a, b):
        if isinstance(a, OV) or isinstance(b, OV):
            return OV("maximum")
        return NP.maximum(self, a, b)

    def count_nonzero(self, x, *a, **k):
        if isinstance(x, OV):
            n = z3.Int(cur().fresh_name("count"))
            cur().assume(n >= 0)
            return SI(n)
        return NP.count_nonzero(self, x, *a, **k)

    def nanmin(self, x, **kw):
        if isinstance(x, OV):
            return OV("nanmin") if "axis" in kw else SF.fresh("nanmin")
        return NP.nanmin(self, x, **kw)

    def nanmax(self, x, **kw):
        if isinstance(x, OV):
            return OV("nanmax") if "axis" in kw else SF.fresh("nanmax")
        return NP.nanmax(self, x, **kw)

    def zeros(self, shape, dtype=float):
        return OV("zeros") if isinstance(shape, (SI, OV)) else NP.zeros(self, shape, dtype)


_SH = {}


class BestIndexLoop(RangeLoop):
    prefix = "C18.set_best_index.loop"
    names = ("k", "best_index", "m_best", "r_best", "x_val", "m_val", "r_val")

    def havoc_state(self, L, env):
        c = L.c
        return {"best_index": SI(z3.Int(c.fresh_name("best_index"))), "m_best": SF.fresh("m_best"), "r_best": SF.fresh("r_best"),
                "x_val": None, "m_val": None, "r_val": None}

    def inv(self, L, env, k, mode):
        npt = it(env["self"]._models.npt)
        b = it(env["best_index"])
        return [("best_index_valid", z3.And(0 <= b, b < npt))]


def fw_shadow():
    if "m" not in _SH:
        _SH["m"] = shadow("cobyqa.framework", specs={"fw.best": BestIndexLoop()}, cuts={("TrustRegion.set_best_index", 0): "fw.best"},
                          expect_loops={"TrustRegion.set_best_index": 1}, np=NPO())
    return _SH["m"]


def mk_tr(c, m):
    tr = m.TrustRegion.__new__(m.TrustRegion)
    tr._constants = sym_constants(c)
    tr._penalty = SF.fresh("penalty", nonan=True)
    c.assume(tr._penalty.r >= 0)
    npt = SI(z3.Int(c.fresh_name("npt")))
    c.assume(npt.t >= 1)
    n = SI(z3.Int(c.fresh_name("n")))
    c.assume(n.t >= 1)
    tr._best_index = SI(z3.Int(c.fresh_name("best_index0")))
    c.assume(z3.And(tr._best_index.t >= 0, tr._best_index.t < npt.t))
    ev = []

    class PB:
        def __call__(self, x, penalty=0.0):
            ev.append(("EVAL", x))
            return SF.fresh("f"), OV("cub"), OV("ceq")

        def violation(self, x, cub_val=None, ceq_val=None):
            ev.append(("violation", cub_val is not None and ceq_val is not None))
            return OV("violation")

        def maxcv(self, x, cub_val=None, ceq_val=None):
            ev.append(("maxcv", cub_val is not None and ceq_val is not None, getattr(x, "idx", None), getattr(cub_val, "idx", None),
                       getattr(ceq_val, "idx", None)))
            ids = [i_ for i_ in (getattr(x, "idx", None), getattr(cub_val, "idx", None), getattr(ceq_val, "idx", None)) if i_ is not None]
            if len(ids) >= 2:
                # asked at the call (inside a cut loop the path ends with the iteration): the point and the two rows of values handed
                # to one call belong to one interpolation index
                c.oblige("C18.framework.violation_from_the_values_of_one_point", z3.And(*[ids[0] == j_ for j_ in ids[1:]]), props=["C18"],
                         note="the violation of an interpolation point is computed with the recorded values of another point")
            r = SF.fresh("maxcv")
            c.assume(z3.Or(r.nan, r.r >= 0))
            return r
        linear = types.SimpleNamespace(a_ub=OV("a_ub"), b_ub=OV("b_ub"), a_eq=OV("a_eq"), b_eq=OV("b_eq"))
    tr._pb = PB()

    class Table:
        """value tables of the models: a row / entry remembers the index of the interpolation point it belongs to"""

        def __getitem__(self, k):
            if not isinstance(k, tuple):
                return SF.fresh("fun_val", finite=True)
            r = OV("row")
            try:
                r.idx = it(k[0])
            except Exception:  # noqa
                r.idx = None
            return r

    def point(k):
        p_ = OV("point")
        p_.idx = it(k)
        return p_

    class Models:
        def __init__(self):
            self.npt, self.n = npt, n
            self.fun_val, self.cub_val, self.ceq_val = Table(), Table(), Table()
            self.interpolation = types.SimpleNamespace(point=point, x_base=OV("x_base"), xpt=OV("xpt"))

        def __getattr__(self, nm):
            if nm.startswith(("fun", "cub", "ceq")):
                return lambda *a, **k: OV(nm)
            raise AttributeError(nm)
    tr._models = Models()
    for nm in ("_lm_linear_ub", "_lm_linear_eq", "_lm_nonlinear_ub", "_lm_nonlinear_eq"):
        setattr(tr, nm, OV(nm))
    return tr, ev


def effects_ok(c, name, ev, props=("C06",)):
    c.oblige(f"C06.{name}.no_evaluation", z3.BoolVal(not any(e[0] == "EVAL" for e in ev)), props=list(props),
             note="the problem was evaluated behind the scenes")
    c.oblige(f"C06.{name}.violations_from_recorded_values", z3.BoolVal(all(e[1] for e in ev if e[0] in ("violation", "maxcv"))),
             props=list(props), note="maxcv/violation asked without values would re-evaluate the constraints")


class Merit(Unit):
    name = "framework.merit"
    props = ("C06",)
    fmodel = "ORDER"
    functions = [("cobyqa.framework", "TrustRegion.merit")]

    def run(self, c):
        m = fw_shadow()
        tr, ev = mk_tr(c, m)
        given = bool(SB(z3.Bool(c.fresh_name("values_given"))))
        f = SF.fresh("fun_val", finite=True)
        if given:
            call_expecting(c, "C08.merit", lambda: tr.merit(OV("x"), f, OV("cub"), OV("ceq")), ())
            effects_ok(c, "merit", ev)
        else:
            call_expecting(c, "C08.merit", lambda: tr.merit(OV("x")), ())
            c.oblige("C06.merit.one_evaluation_without_values", z3.BoolVal(sum(1 for e in ev if e[0] == "EVAL") == 1), props=["C06"])


class SetBestIndex(Unit):
    name = "framework.set_best_index"
    props = ("C06", "C18")
    fmodel = "ORDER"
    functions = [("cobyqa.framework", "TrustRegion.set_best_index")]

    def run(self, c):
        m = fw_shadow()
        tr, ev = mk_tr(c, m)
        saved = m.TrustRegion.merit
        mer = []

        def merit(self, x, fun_val=None, cub_val=None, ceq_val=None):
            mer.append(fun_val is not None and cub_val is not None and ceq_val is not None)
            ids = [i_ for i_ in (getattr(x, "idx", None), getattr(cub_val, "idx", None), getattr(ceq_val, "idx", None)) if i_ is not None]
            if len(ids) >= 2:
                c.oblige("C18.set_best_index.merit_from_the_values_of_one_point", z3.And(*[ids[0] == j_ for j_ in ids[1:]]), props=["C18"],
                         note="the merit value of an interpolation point is computed with the recorded values of another point")
            return SF.fresh("merit")
        m.TrustRegion.merit = merit
        try:
            call_expecting(c, "C08.set_best_index", lambda: tr.set_best_index(), ())
        finally:
            m.TrustRegion.merit = saved
        effects_ok(c, "set_best_index", ev, ("C06", "C18"))
        c.oblige("C06.set_best_index.merit_with_recorded_values", z3.BoolVal(all(mer) and len(mer) >= 1), props=["C06", "C18"])
        b = it(tr._best_index)
        c.oblige("C18.set_best_index.post.best_index_valid", z3.And(0 <= b, b < it(tr._models.npt)), props=["C18"])


class PenaltyRules(Unit):
    name = "framework.penalty_rules"
    props = ("C06", "C18")
    fmodel = "ORDER"
    functions = [("cobyqa.framework", "TrustRegion.increase_penalty"), ("cobyqa.framework", "TrustRegion.decrease_penalty"),
                 ("cobyqa.framework", "TrustRegion.get_reduction_ratio")]
    assumptions = ["_get_low_penalty returns 0, +inf or a non-negative quotient (contract assumed here; its 2-D reductions are not modelled)"]

    def run(self, c):
        m = fw_shadow()
        tr, ev = mk_tr(c, m)
        pen0 = tr._penalty
        which = c.choose("method", 3, ["increase", "decrease", "ratio"])
        saved = (m.TrustRegion.set_best_index, m.TrustRegion.merit, m.TrustRegion.sqp_fun, m.TrustRegion._get_low_penalty,
                 m.TrustRegion.get_constraint_linearizations)
        mer = []
        m.TrustRegion.set_best_index = lambda self: None

        def merit(self, x, fun_val=None, cub_val=None, ceq_val=None):
            mer.append(fun_val is not None and cub_val is not None and ceq_val is not None)
            return SF.fresh("merit")
        m.TrustRegion.merit = merit
        m.TrustRegion.sqp_fun = lambda self, step: SF.fresh("sqp_val")
        m.TrustRegion.get_constraint_linearizations = lambda self, x: (OV("aub"), OV("bub"), OV("aeq"), OV("beq"))

        def low(self):
            r = SF.fresh("low_penalty", nonan=True)
            c.assume(r.r >= 0)
            return r
        m.TrustRegion._get_low_penalty = low
        try:
            if which == 0:
                kind, res = call_expecting(c, "C08.increase_penalty", lambda: tr.increase_penalty(OV("step")), ())
            elif which == 1:
                kind, res = call_expecting(c, "C08.decrease_penalty", lambda: tr.decrease_penalty(), ())
            else:
                kind, res = call_expecting(c, "C08.get_reduction_ratio", lambda: tr.get_reduction_ratio(OV("step"), SF.fresh("f", finite=True), OV("cub"), OV("ceq")), ())
        finally:
            (m.TrustRegion.set_best_index, m.TrustRegion.merit, m.TrustRegion.sqp_fun, m.TrustRegion._get_low_penalty,
             m.TrustRegion.get_constraint_linearizations) = saved
        nm = ["increase_penalty", "decrease_penalty", "get_reduction_ratio"][which]
        effects_ok(c, nm, ev, ("C06", "C18"))
        c.oblige(f"C06.{nm}.merit_with_values", z3.BoolVal(all(mer)), props=["C06"])
        p = SF.lift(tr._penalty)
        c.oblige(f"C18.{nm}.post.penalty_defined_nonneg", z3.And(z3.Not(p.nan), p.r >= 0), props=["C18"])
        if which == 0:
            c.oblige("C18.increase_penalty.post.monotone", p.r >= pen0.r, props=["C18"])
            c.oblige("C18.increase_penalty.post.changed_only_to_at_least_one", z3.Or(feq(p, pen0), p.r >= 1), props=["C18"])
        if which == 1:
            c.oblige("C18.decrease_penalty.post.not_increased", p.r <= pen0.r, props=["C18"])
        if which == 2:
            c.oblige("C18.get_reduction_ratio.frame.penalty_unchanged", feq(p, pen0), props=["C18"])


UNITS = [Merit(), SetBestIndex(), PenaltyRules()]


# ---- models.build_system: the per-interpolation cache (C11.O4, and the premise of C12/C13/C14: systems are built for the
# ---- current point set) -------------------------------------------------------------------------------------------------
class NPCache(NPO):
    """effect-only np shim for build_system: array comparisons become symbolic facts"""

    def __init__(self, eq, close):
        self.eq, self.close = eq, close
        self.used = None

    def array_equal(self, a, b):
        self.used = "array_equal"
        return SB(self.eq)

    def allclose(self, a, b, *args, **kw):
        self.used = "allclose"
        return SB(self.close)

    def max(self, x, **kw):
        if isinstance(x, (OV, SF)):
            r = SF.fresh("scale", finite=True)
            cur().assume(r.r > 0)
            return r
        return NPO.max(self, x, **kw)

    def zeros(self, shape, dtype=float):
        return OV("zeros")

    def empty(self, shape, dtype=float):
        return OV("empty")

    def copy(self, x):
        if isinstance(x, OV):
            o = OV("copy")
            o.copy_of = x
            return o
        return NPO.copy(self, x)


class OVm(OV):
    """opaque matrix with a symbolic shape and item assignment"""

    def __init__(self, tag, n, npt):
        OV.__init__(self, tag)
        self.shape = (SI(n), SI(npt))
        self._n, self._npt = n, npt

    @property
    def T(self):
        return OVm(self.tag + "T", self._npt, self._n)

    def _mk(self, *a, **k):
        return OVm(self.tag, self._n, self._npt)
    __truediv__ = _mk

    def __setitem__(self, k, v):
        pass


OV.__setitem__ = lambda self, k, v: None
OV.__pow__ = OV._mk
OV.__rtruediv__ = OV._mk


class BuildSystemCache(Unit):
    name = "models.build_system_cache"
    props = ("C11", "C12", "C13", "C14")
    fmodel = "ORDER"
    functions = [("cobyqa.models", "build_system")]

    def run(self, c):
        m = shadow("cobyqa.models") if "models_cache" not in _SH else _SH["models_cache"]
        _SH["models_cache"] = m
        eq = z3.Bool(c.fresh_name("same_points_as_cached"))
        close = z3.Bool(c.fresh_name("close_to_cached"))
        c.assume(z3.Implies(eq, close))
        npx = NPCache(eq, close)
        saved_np, saved_eigh = m.__dict__["np"], m.__dict__["eigh"]
        m.__dict__["np"] = npx
        eig = ("eig_values", "eig_vectors")
        m.__dict__["eigh"] = lambda a, **kw: eig
        n, npt = z3.Int(c.fresh_name("n")), z3.Int(c.fresh_name("npt"))
        c.assume(z3.And(n >= 1, npt >= n + 1))
        xpt = OVm("xpt", n, npt)
        has_cache = c.choose("cache", 2, ["empty", "filled"])
        cached = {"xpt": OV("cached_xpt"), "a": OV("cached_a"), "right_scaling": OV("cached_rs"), "eigh": ("cv", "cw")} if has_cache else None
        ip = types.SimpleNamespace(xpt=xpt, _lhs_cache=cached)
        try:
            kind, res = call_expecting(c, "C08.build_system", lambda: m.build_system(ip), ())
        finally:
            m.__dict__["np"], m.__dict__["eigh"] = saved_np, saved_eigh
        from_cache = cached is not None and res[0] is cached["a"]
        c.oblige("C11.build_system.cache_hit_only_for_identical_points", z3.Implies(z3.BoolVal(from_cache), eq), props=["C11", "C12", "C13", "C14"],
                 note="the cached system of a different (merely close) interpolation set was reused")
        if not from_cache:
            nc = ip._lhs_cache
            c.oblige("C11.build_system.cache_refreshed_with_a_copy_of_the_points",
                     z3.BoolVal(isinstance(nc, dict) and getattr(nc.get("xpt"), "copy_of", None) is xpt and nc.get("eigh") == eig and res[2] == eig),
                     props=["C11", "C12"])
        c.oblige("C11.build_system.state_lives_on_the_interpolation_object", z3.BoolVal(True), props=["C11"])


UNITS.append(BuildSystemCache())


# ---- TrustRegion.get_index_to_remove: the centre of the trust region is never the point chosen for replacement (C18.O5) ----------
class NPDist(NPO):
    def __init__(self, dist_sq):
        self.dist_sq = dist_sq

    def sum(self, x, *a, **kw):
        if isinstance(x, OV):
            return self.dist_sq
        return NPO.sum(self, x, *a, **kw)

    def maximum(self, a, b):
        return NP.maximum(self, a, b)


class IndexToRemove(Unit):
    name = "framework.get_index_to_remove"
    props = ("C18", "C14")
    fmodel = "ORDER"
    functions = [("cobyqa.framework", "TrustRegion.get_index_to_remove")]
    assumptions = ["dist_sq[k] = |x_k - x_best|^2 is a vector of defined non-negative values that vanishes at k = best_index (elementary property "
                   "of the sum of squares the code computes on 2-D arrays, which the proxies do not model)",
                   "N7: the determinant ratios are defined and finite, and not all zero away from the best point; the squared denominator "
                   "max(low_radius_factor*radius, resolution)**2 does not underflow to zero"]

    def run(self, c):
        m = fw_shadow()
        tr, ev = mk_tr(c, m)
        npt = it(tr._models.npt)
        best = it(tr._best_index)
        dist_sq = vecs.fresh_vec("dist_sq", npt, nonan=True)
        j = z3.Int("vcx_j")
        c.pc.append(z3.ForAll([j], z3.Implies(z3.And(0 <= j, j < npt), z3.And(dist_sq.at(j).r >= 0, dist_sq.at(j).r < PINF)), patterns=[dist_sq.at(j).r]))
        c.assume(dist_sq.at(best).r == 0)
        tr._radius = SF.fresh("radius", finite=True)
        tr._resolution = SF.fresh("resolution", finite=True)
        c.assume(z3.And(tr._resolution.r > 0, tr._radius.r >= tr._resolution.r))
        with_new = bool(c.choose("x_new", 2, ["given", "none"]) == 0)
        sigma = vecs.fresh_vec("sigma", npt, finite=True)
        w = z3.Int(c.fresh_name("nonzero_sigma_index"))
        c.assume(z3.And(0 <= w, w < npt, w != best, sigma.at(w).r != 0))       # N7
        c.witnesses += [w, best]
        tr._models.determinants = lambda x_new, k_new=None: sigma
        # N7: the squared denominator of the weights does not underflow to zero (same term as the code builds)
        from pyvc.values import py_max2
        den = py_max2(tr._constants["low_radius_factor"] * tr._radius, tr._resolution)
        den2 = den ** 2.0
        c.assume(z3.And(z3.Not(den2.nan), den2.r > 0))
        saved = m.__dict__["np"]
        m.__dict__["np"] = NPDist(dist_sq)
        try:
            kind, res = call_expecting(c, "C08.get_index_to_remove", lambda: tr.get_index_to_remove(OV("x_new")) if with_new else tr.get_index_to_remove(), ())
        finally:
            m.__dict__["np"] = saved
        k, d = res
        effects_ok(c, "get_index_to_remove", ev, ("C06", "C18"))
        c.oblige("C18.get_index_to_remove.index_valid", z3.And(0 <= it(k), it(k) < npt), props=["C18"])
        d = SF.lift(d)
        if with_new:
            # the squared denominator does not underflow (assumption): find the product term and assume it positive is not possible from
            # outside; instead the claim is stated under the condition that every weight is defined
            c.oblige("C18.get_index_to_remove.never_the_best_point", it(k) != best, props=["C18"],
                     note="the centre of the trust region was chosen for replacement")
        else:
            c.oblige("C18.get_index_to_remove.best_point_only_at_distance_zero", z3.Implies(it(k) == best, z3.And(z3.Not(d.nan), d.r == 0)), props=["C18"])
        c.oblige("C18.get_index_to_remove.distance_nonneg", z3.Or(d.nan, d.r >= 0), props=["C18"])


UNITS.append(IndexToRemove())


# ---- bounded complement: set_best_index on concrete tables (the arg-min clause of C18 is not proved) ----------------------------------------
class BestIndexBounded(Unit):
    name = "framework.set_best_index_bounded"
    props = ("C18",)
    fmodel = "ORDER"
    functions = [("cobyqa.framework", "TrustRegion.set_best_index"), ("cobyqa.framework", "TrustRegion.merit")]
    replay = ("contracts.replays", "best_index_audit")
    bounded = ("native run-time contract on 3000 seeded value tables (2..7 points, 0..2 nonlinear inequality and equality values each, many "
               "exact ties in the merit value, penalty 0 or positive): the centre chosen is the one the documented rule gives")

    def run(self, c):
        import os
        import numpy as np
        from pyvc.transform import ensure_repo_on_path
        from .subsolvers_bounded import rng_for
        from .replays import best_index_audit
        ensure_repo_on_path()
        rng = rng_for(self.name)
        N = 30000 if os.environ.get("VERIF_TIER") == "thorough" else 3000
        bad = None
        for k in range(N):
            npt = int(rng.integers(2, 8))
            mub, meq = int(rng.integers(0, 3)), int(rng.integers(0, 3))
            tie = rng.random() < 0.6
            fun = rng.integers(0, 3, npt).astype(float) if tie else rng.standard_normal(npt)
            cub = rng.integers(-2, 4, (npt, mub)).astype(float)
            ceq = rng.integers(-3, 4, (npt, meq)).astype(float)
            pen = float(rng.choice([0.0, 0.0, 1.0, 2.5]))
            case = dict(fun=fun.tolist(), cub=cub.tolist(), ceq=ceq.tolist(), penalty=pen, best0=int(rng.integers(0, npt)))
            r = best_index_audit(**case)
            if r["reproduced"] and bad is None:
                bad = (k, case, r["observed"])
        c.oblige(f"C18.set_best_index.centre_is_the_least_merit_point[{N} cases]", z3.BoolVal(bad is None), kind="bounded", props=["C18"],
                 note=None if bad is None else f"case {bad[0]}: {bad[1]} -> {bad[2]}"[:1500], replay_inputs=None if bad is None else bad[1])


UNITS.append(BestIndexBounded())
