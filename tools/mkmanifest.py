#!/usr/bin/env python3
"""Regenerate /verif/MANIFEST.json from the table below (kept in one place so it stays valid)."""
import json, os
HERE = os.path.dirname(os.path.dirname(os.path.abspath(__file__)))
BASELINE = "cd /repo && /venv/bin/python -m pytest -ra -q -p no:cacheprovider --timeout=900 --continue-on-collection-errors"

CLAIMS = {
    "C18": dict(
        category="proof",
        text="Every scalar update rule of the trust-region state (radius setter, update_radius, enhance_resolution, the "
             "short-step shrink) is executed from the real source on symbolic values over the documented constant domains; "
             "all paths are enumerated and the object invariant radius_final <= resolution <= radius, strict decrease and the "
             "contraction lemma of the resolution are discharged by z3 for all inputs. Also proved: Interpolation.__init__ keeps "
             "radius_final <= radius_init when fitting the radii to the box; get_index_to_remove never selects the centre of the trust "
             "region when a new point is given (and only with distance 0 otherwise), and minimize's geometry step replaces the point chosen "
             "in the same iteration for the current best index; the completed constants satisfy the domains/orders these proofs assume "
             "(C19.set_default_constants.post.valid counts for C18). In minimize, ghost state tracks whether the centre is still the "
             "least-merit interpolation point: every replacement of a point is followed by set_best_index before the framework is used "
             "again, unless the newcomer's merit value is known to exceed the centre's.",
        design_ref="5 C18",
        note="REAL float model (machine arithmetic treated as mathematical) for products/sqrt; constants assumed to satisfy "
             "the postcondition of _set_default_constants (proved under C19); callee = contract; termination not verified.",
        technique="deductive: symbolic execution of the real bodies + z3 (NRA) per obligation",
    ),
}
CLAIMS["C19"] = dict(
    category="proof",
    text="The real _set_default_options and _set_default_constants are executed on dicts with symbolic key presence (all 2^13 / 2^20 "
         "subsets of supplied keys at once, every real value): ValueError is raised iff a supplied value leaves its documented "
         "domain or a supplied pair violates its documented order; otherwise every key is present, typed, in its domain, all "
         "documented relations hold, supplied values are kept and unsupplied ones equal the documented default / derivation; an "
         "unknown name yields exactly one RuntimeWarning. minimize validates and completes options and constants before any result is "
         "built or the framework constructed, on every kind of problem (inconsistent bounds, all variables fixed, ordinary), hands the "
         "caller's keywords to the constants' validator and the completed objects on; every basic option reaches Problem under its name.",
    design_ref="5 C19",
    note="Supplied numeric values range over the reals (NaN outside the quantifier, N6); REAL float model; the spec tables are "
         "transcribed from the docstring of minimize (contracts/spec_plain.py, contracts/c19.py); the early history_size/"
         "filter_size checks of minimize are covered by the minimize unit.",
    technique="deductive: symbolic-presence dicts + path enumeration of the real validators, z3 (LRA/NIA)",
)
CLAIMS["C03"] = dict(
    category="proof",
    text="[+ bounded clause for a finite filter_size: an entry the newcomer does not dominate is evicted only when the filter is full] "
         "The real Problem.__call__ (filter insertion test, removal loop cut at the invariant ALIGN/SUBSET/COVER/NOMIX, FIFO eviction) and the "
         "real Problem.best_eval are executed on filter lists of symbolic length with arbitrary float contents (NaN, +-inf, ties): the "
         "filter invariants are preserved by every call, and best_eval returns the entry prescribed by the documented six-tier rule "
         "(feasible first, least objective, ties by violation then recency; least merit otherwise), written from the statement.",
    design_ref="5 C03",
    note="ORDER float model (comparisons exact, merit arithmetic uninterpreted with IEEE monotonicity); callees of Problem.__call__ are "
         "contract stubs; COVER is claimed for the unbounded filter (filter_size > number of evaluations), the finite-filter clause "
         "is the selection rule over the retained entries. NOMIX (fully defined and NaN entries never coexist) is an optional invariant: "
         "proved for Problem.__call__, required only if an obligation of best_eval holds only with it (not the case on this tree).",
    technique="deductive: symbolic lists + loop invariant + quantified VCs, z3 (E-matching / MBQI) per obligation",
)
CLAIMS["C05"] = dict(
    category="proof",
    text="Budget and counting clauses as obligations over the real code: Problem.__call__ increases Problem.n_eval by exactly one for any "
         "objective incl. fun=None and keeps fun/maxcv histories equal to the last min(nfev, history_size) raw evaluations (list "
         "reasoning with pop(0)); _eval never evaluates beyond maxfev; the initial sampling loop (invariant nev == max(k,1) <= maxfev) "
         "and the main loop of minimize (invariant n_iter <= maxiter, 1 <= nfev <= maxfev) are cut at inductive invariants and all "
         "~1400 paths incl. every exceptional exit are enumerated; _build_result reports exactly these counters.",
    design_ref="5 C05",
    note="Callees are contract stubs verified by their own units (Problem.__call__, _eval, Models.__init__, TrustRegion.__init__, "
         "_build_result); contracts of the TrustRegion/Models methods called in the loop are assumed to make no evaluation (their "
         "bodies are checked for that under C06 where claimed); integers are mathematical.",
    technique="deductive: loop invariants + path enumeration of the real bodies, z3",
)
CLAIMS["C07"] = dict(
    category="proof",
    text="minimize's real body is explored with every callee replaced by its contract (incl. all exceptional outcomes): at each of the "
         "hand-overs to _build_result the status-specific clause of the statement is an obligation (0 => resolution == radius_final, "
         "1/3/4 => the corresponding request was raised by the last evaluation, 2 => n == 0, 5 => nfev == maxfev, 6 => nit == maxiter, "
         "-1 => infeasible bounds, success only with 0..4); _build_result's message table, status value and success rule are proved "
         "against the documented table for all nine statuses.",
    design_ref="5 C07",
    note="Exceptional contracts of Models.__init__/TrustRegion.__init__/_eval are proved by their own units over contract stubs of "
         "Problem; 'returned point meets the target / is feasible' relies on C03's selection rule plus the trigger evaluation being "
         "in the filter (COVER) and is not re-proved end-to-end.",
    technique="deductive: exceptional postconditions + path enumeration, z3",
)
CLAIMS["C08"] = dict(
    category="proof",
    text="Exception-escape obligations on the real bodies: every Python-level exception on any explored path of minimize, _eval, "
         "_build_result, Problem.__call__, Problem.best_eval, Models.__init__, TrustRegion.__init__ that is not in the function's "
         "exceptional contract is a failed obligation; minimize lets only ValueError/TypeError from the validation callees escape; "
         "Problem.__call__ returns barrier-clipped NaN-free values (exact in the ORDER model) while the filter/history keep raw ones; "
         "_build_result never labels a NaN result successful.",
    design_ref="5 C08",
    note="Exceptions raised inside NumPy/SciPy primitives and termination of callees/library routines are not verified (partial "
         "correctness; main-loop variant only); argument-normalisation functions (_get_bounds, _get_constraints, Problem.__init__) "
         "are contract stubs here.",
    technique="deductive: exceptional postconditions over all paths, z3",
)
CLAIMS["C09"] = dict(
    category="proof",
    text="For _eval and the initial sampling loop: a stopping request (target, feasibility, callback) is raised iff the just evaluated "
         "point satisfies it, tested on the values of that very evaluation, and no further evaluation happens before the exception; in "
         "minimize every handler reaches _build_result with no intervening evaluation (ghost trigger index == nfev) and statuses 1/3/4 "
         "are never issued otherwise; the penalty used to pick the returned point equals the one given to the callback.",
    design_ref="5 C09",
    note="N4: requests are evaluated on the barrier-clipped values the solver receives; that the returned point satisfies the request "
         "relies on C03 (filter COVER + selection rule), composed informally.",
    technique="deductive: ghost call log / trigger index, exceptional postconditions, z3",
)
CLAIMS["C20"] = dict(
    category="proof",
    text="Effect clauses on the real Problem.__call__: exactly one callback event per call, after the filter update, with the point "
         "returned by best_eval(penalty) rebuilt by build_x and its fun, in the calling convention selected by the signature test "
         "(both shapes explored); best_eval returns one retained triple chosen by the documented rule; _eval/Models.__init__ forward "
         "the framework's penalty and minimize hands the same penalty to _build_result on the callback exit; StopIteration => "
         "CallbackSuccess => status 3 with nfev = index of that evaluation.",
    design_ref="5 C20",
    note="That the array handed to the callback is fresh and within bounds is the contract of build_x (C01.O1, claimed there); "
         "callable objects/partials are covered only through inspect.signature's own behaviour (assumed).",
    technique="deductive: effect (frame) clauses over the ghost call log, z3",
)
CLAIMS["C01"] = dict(
    category="proof",
    text="Exact (order-only, IEEE-sound) proof for every dimension and every fixed-variable pattern that Problem.build_x + "
         "BoundConstraints.project return a NaN-free point inside [lb, ub] with lb==ub components held, from the invariant that "
         "BoundConstraints.__init__ is proved to establish; effect clauses prove that the objective, the constraint functions, the callback "
         "and result.x only ever receive build_x images (Problem.__call__, Problem.maxcv, _build_result); in exact arithmetic with "
         "infinite bounds allowed, get_trust_region_step and get_second_order_correction_step shift the bounds by exactly the point the "
         "returned step is added to and meet the subsolvers' preconditions, so the trial point is inside the bounds by construction.",
    design_ref="5 C01",
    note="Interpolation.__init__ is proved for every n and npt (REAL model, placement-loop invariant: every initial point inside the bounds, "
         "radii fitted to the box; its base-point case analysis also in the ORDER model, where it is exhaustive in floating point, with a "
         "bounded sweep of the thresholds). Subsolver contracts (step inside the box it is given) are assumed at the call sites; they are proved as "
         "loop invariants for constrained_tangential_byrd_omojokun (tcgbox unit, NaN-freeness excepted) and otherwise checked by the "
         "bounded subsolver units, whose step_within_bounds clauses count for C01 (a failing case is replayed natively); the geometry "
         "step is covered by the bounded units and the end-to-end monitor; REAL model for the step arithmetic.",
    technique="deductive: Mode A vectors (closure-composed, one fresh index), ORDER/REAL float models, z3",
)
CLAIMS["C02"] = dict(
    category="proof",
    text="best_eval returns fun, maxcv and x of one and the same retained index (unbounded); the filter entries are elements of the ghost "
         "evaluation history (SUBSET invariant of Problem.__call__), stored raw (pre-barrier); _build_result copies them and rebuilds x; "
         "Problem.maxcv / NonlinearConstraints.violation compute max(0, linear part, max(c_ub,0), |c_eq|) of the values handed to them "
         "with NumPy NaN-propagation and call no user function. The reduction/scaling algebra of Problem.__init__ and the linear part are "
         "covered by a bounded stand-in (random statements, every fixed pattern) and the bounded end-to-end monitor.",
    design_ref="5 C02",
    note="N3 for equalities; the linear violation is SciPy's PreparedConstraint.violation on the reduced constraints (assumed contract); "
         "Problem.__init__ bounded only (2-D array code outside the Mode A proxies).",
    technique="deductive: list/vector contracts with z3; bounded run-time contracts for the 2-D reduction code",
)
CLAIMS["C06"] = dict(
    category="proof",
    text="Frame (effect) clauses over a ghost call log on the real bodies: Problem.__call__ makes exactly one objective and one "
         "constraint evaluation at the rebuilt full point and one callback; NonlinearConstraints.__call__ makes one user call per "
         "constraint object at the given point (first and later calls); ObjectiveFunction.__call__ one call on a fresh copy; Problem.maxcv/"
         "violation, NonlinearConstraints.violation/maxcv, best_eval (non-empty filter), TrustRegion.merit/set_best_index/increase_penalty/"
         "decrease_penalty/get_reduction_ratio, _eval after its evaluation, _build_result and every path of minimize (incl. disp=True "
         "printing) make none.",
    design_ref="5 C06",
    note="SciPy's PreparedConstraint/VectorFunction cache is an assumed contract; get_constraint_linearizations, set_multipliers, the "
         "step computations and the models are executed on opaque values only through their callers' stubs (they have no access path "
         "to the user functions other than pb(...), which is logged).",
    technique="deductive: ghost call log + effect clauses on every explored path",
)
CLAIMS["C10"] = dict(
    category="proof",
    text="Contracts on the normalisation layer: build_x is exactly clip(x*factor+shift) on free and clip(fixed value) on fixed components "
         "(all n, all patterns); NonlinearConstraints.__call__ produces rows that depend only on each component's limits and value, objects "
         "contributing in order; plus a bounded cross-check that eight pairs of equivalent statements (Bounds/array, dict/"
         "NonlinearConstraint, one two-sided/two one-sided, split linear rows, fixed variable vs hand elimination, scale vs explicit unit "
         "box) give identical evaluation sequences and results, and the bounded Problem.__init__ stand-in for the reduced linear data.",
    design_ref="5 C10",
    note="The step from equal internal data to equal runs rests on C11 and on bit-reproducibility of NumPy/LAPACK (assumed); "
         "_get_bounds/_get_constraints/Problem.__init__ are covered by bounded checks only.",
    technique="deductive contracts on the normalisers + bounded differential runs",
)
CLAIMS["C11"] = dict(
    category="proof",
    text="Non-interference by frames: ownership obligations (no in-place write to a user-owned array or dict on any explored path of "
         "BoundConstraints.__init__, NonlinearConstraints.__call__, the prologue of minimize, _get_constraints on dictionaries - every "
         "key-presence / type / container combination; user functions receive fresh copies) and a "
         "whole-package syntactic frame decided on every run (no global/nonlocal, no module/class state written in functions, no "
         "module-level container mutated, no caching decorator, no mutable default, no ambient nondeterminism).",
    design_ref="5 C11",
    note="No schedule is explored: if no call writes to memory reachable from another call every interleaving equals the serial run; "
         "thread-safety and bit-reproducibility of NumPy/SciPy/BLAS, and np.printoptions in disp mode, are assumed.",
    technique="deductive: ownership (frame) obligations + syntactic frame scan",
)
CLAIMS["C12"] = dict(
    category="proof",
    text="Unbounded: every value recorded during the initial sampling is the value returned by the evaluation at that very interpolation "
         "point, _eval returns the evaluated values, Problem.__call__ returns barrier-clipped finite values, and in minimize the point "
         "handed to update_interpolation is x_best + step as they were when the recorded values were evaluated (provenance ghost, also "
         "after an in-place second-order correction). Bounded (exact rational-"
         "function arithmetic on the real methods, n<=4): fresh models interpolate; update_interpolation updates every model (also when "
         "an update reports ill-conditioning), records values/point and preserves interpolation; shift_x_base and reset_models preserve it.",
    design_ref="5 C12",
    note="SOLVE: Quadratic.solve_systems returns the exact solution of the system built by build_system (eigh exact, not ill-"
         "conditioned); the 'error proportional to machine precision x conditioning' clause is not applicable (floating-point accuracy "
         "of eigh); dimensions n<=4 with partly sampled geometry (see the units' bounded text).",
    technique="deductive effect clauses + exact symbolic execution at fixed dimensions (bounded)",
)
CLAIMS["C13"] = dict(
    category="other",
    text="Proved: build_system reuses its cached system only for an identical point set and refreshes the cache with a copy. Bounded: the real build_system/_get_model/update/shift/view methods are executed on exact rational-function arrays at fixed "
         "dimensions (n<=4, npt<=15): the system matrix is the scaled KKT matrix of the least-Frobenius-norm problem, _get_model satisfies "
         "its KKT conditions, update adds exactly the least-norm interpolant of the residuals, and value/grad/hess/hess_prod/curv are those "
         "of one quadratic, invariant under shift_x_base. 289 polynomial identities decided by normal form.",
    design_ref="5 C13",
    note="Bounded in dimension; SOLVE assumed; that KKT conditions characterise the minimiser is a cited theorem; the rounding clause is "
         "not applicable.",
    technique="exact symbolic execution of the real methods (sympy rational function field), bounded",
)
CLAIMS["C14"] = dict(
    category="other",
    text="Bounded: Models.determinants executed exactly at n<=4: asked for all indices it agrees with asked for one index, and sigma_k * det W "
         "equals det W_new(k) computed directly (39 identities).",
    design_ref="5 C14",
    note="Bounded in dimension (fully symbolic geometry only for n=1 and n=2,npt=3; rational geometry with symbolic new point above); SOLVE "
         "assumed; floating-point accuracy not covered.",
    technique="exact symbolic execution of the real method, bounded",
)
CLAIMS["C15"] = dict(
    category="other",
    text="Mixed. Proved: _alpha_tr returns a non-negative step length reaching the trust-region boundary (NRA); cauchy_geometry returns one "
         "of its two candidates computed on the clamped bounds; _cauchy_geom's step is a clip result inside the clamped bounds; the call "
         "sites in the framework meet the subsolvers' preconditions; for constrained_tangential_byrd_omojokun and tangential_byrd_omojokun the "
         "bound clause is a loop invariant of both real loops (every n, every number of linear constraints, every iteration; frame computed from the loop body, "
         "matrices opaque): the returned step is NaN or inside [min(xl,0), max(xu,0)]. Bounded: the five subsolvers are run on 3000 (30000 thorough) seeded "
         "cases (floats over 12 decades and small-integer instances, all listed degeneracies) against bounds/radius/linear-inequality/"
         "null-space clauses as run-time contracts.",
    design_ref="5 C15",
    note="Radius, linear-inequality and null-space clauses of the truncated-CG loops, NaN-freeness of the steps, and the bound clause of "
         "normal_byrd_omojokun are not proved: bounded only, detection is probabilistic.",
    technique="deductive units for the small pieces + bounded run-time contracts for the numerical loops",
)
CLAIMS["C16"] = dict(
    category="other",
    text="Mixed. Proved: cauchy_geometry solves the negated problem as second candidate and returns the candidate with the larger |q|, hence "
         "|q| >= |const| given the callee contract; the final guards of tangential_byrd_omojokun and constrained_tangential_byrd_omojokun "
         "(whatever the loops do - they are havocked by frame-only cuts - the returned step is the truncated-CG step or one whose model "
         "value, evaluated with the statement's expression, is not larger). Bounded: tangential steps do not increase the model, normal steps do not increase the "
         "violation, geometry steps do not decrease |q|, strict increase of the Cauchy geometry step when a feasible improving direction "
         "exists and the box fits in the trust region (found and fixed two genuine defects: _cauchy_geom signs, spider_geometry step sizes).",
    design_ref="5 C16",
    note="The clause 'at least the decrease of the projected-gradient Cauchy step' is a bounded clause (Cauchy step along the projected "
         "gradient up to the first bound or the radius); the unmodified solver fails it below its absolute gradient threshold: recorded "
         "known finding F1 (known_findings.json), printed as KNOWN-FINDING, every other input still checked. Bounded detection is "
         "probabilistic.",
    technique="deductive selection contract + bounded run-time contracts",
)
CLAIMS["C17"] = dict(
    category="proof",
    text="NonlinearConstraints.__call__ proved for symbolic-length components and 0..2 constraint objects: each component yields exactly "
         "one equality row at the midpoint iff |ub-lb|<=tol, else one row lb-v iff lb>-inf and one row v-ub iff ub<inf, nothing for NaN/"
         "unlimited limits, lower block before upper block per object, reported sizes equal returned sizes; BoundConstraints.__init__ "
         "neutralises NaN bounds; the violation contract gives max(0, rows). Linear constraints: bounded stand-in only.",
    design_ref="5 C17",
    note="get_arrays_tol is a contract stub in that unit and proved by its own (defined and positive for arbitrary contents, NaN/inf "
         "included; overflow not excluded); LinearConstraints.__init__ is only covered by the bounded "
         "Problem.__init__ stand-in (internal residuals vs the user's constraints on random statements).",
    technique="deductive: guarded vectors (masks compose on the base index), ORDER model, z3",
)
NOT_YET = "no check registered yet in this revision (machinery under construction); not claimed"
NA = {
    "C04": "convergence to the minimiser on reference problems is a whole-run limit property of a floating-point iteration; "
           "no per-function contract or data-structure invariant implies it (DESIGN.md section 6)",
}
ALL = [f"C{i:02d}" for i in range(1, 21)]


def main():
    checks = []
    for pid in ALL:
        if pid not in CLAIMS:
            continue
        c = CLAIMS[pid]
        checks.append({
            "property_id": pid,
            "quick_cmd": f"./check {pid} --tier quick",
            "thorough_cmd": f"./check {pid} --tier thorough",
            "evidence_file": f"evidence/{pid}.json",
            "replay_cmd_template": f"./check {pid} --replay {{path}}",
            "engine": "pyvc",
            "level_claimed": {"category": c["category"], "text": c["text"], "design_ref": c["design_ref"]},
            "level_note": c["note"],
            "technique": c["technique"],
        })
    na = [{"property_id": p, "reason": NA.get(p, NOT_YET)} for p in ALL if p not in CLAIMS]
    man = {
        "version": 1,
        "setup_cmd": "./setup.sh",
        "hooks": {"guard": "COBYQA_VERIF", "enable": "none needed: the verifier re-reads /repo sources and builds shadow modules; "
                  "no instrumentation is compiled into cobyqa", "baseline_off_cmd": BASELINE, "source_commits": [], "add_only": True},
        "engines": [{"name": "pyvc", "path": "pyvc/", "serves_properties": sorted(CLAIMS),
                     "kind_free_text": "home-built deductive verifier for the Python subset of cobyqa: AST-transformed real "
                     "sources executed on symbolic proxies, loop cuts at sidecar invariants, callee contracts, z3/cvc5"}],
        "checks": checks,
        "not_applicable": na,
        "notes": "Exit codes of ./check: 0 held, 1 VIOLATION, 2 undecided (never a violation), 3 engine failure. "
                 "known_findings.json lists recorded findings and fixed defects.",
    }
    with open(os.path.join(HERE, "MANIFEST.json"), "w") as fh:
        json.dump(man, fh, indent=1)
    print("MANIFEST.json:", len(checks), "checks,", len(na), "not applicable")


if __name__ == "__main__":
    main()
