"""Problem.__call__ under contract (C03 filter invariants, C05 counting/history, C06 effects, C08 barrier, C20 callback).

Ghost state: the evaluation history H = (Hf, Hm) : eval index -> (raw objective value, raw violation), Hlen = number of
evaluations made so far.  A point is identified by its evaluation index (ghost id `eid`).

Object invariant of the filter (the three parallel lists F, M, X):
  ALIGN   len F == len M == len X
  SUBSET  every entry is an element of the history, in evaluation order:
          0 <= X[j] < Hlen, F[j] == Hf[X[j]], M[j] == Hm[X[j]], X strictly increasing
  BOUND   len F <= filter_size
  NOMIX   fully defined entries and entries with a NaN never coexist (a fully defined newcomer evicts every NaN entry, a NaN
          newcomer is only admitted among NaN entries): either every entry is fully defined or every entry has a NaN
  COVER   (as long as nothing was evicted, i.e. filter_size > Hlen) every fully defined evaluated point p is dominated
          by a fully defined retained entry q:  Hf[q'] <= Hf[p] and Hm[q'] <= Hm[p]
"""
import z3
from pyvc.core import cur, SB, PathEnd, Unsupported, tobool
from pyvc.unit import Unit, call_expecting
from pyvc.values import SF, SI, it, I, R, B, PINF, NINF, feq, realval
from pyvc.seqs import SList, XList, OpaquePoint
from pyvc.shims import RangeLoop
from pyvc import vecs
from .common import shadow

BARRIER = 2.0 ** 100


# ---- ghost history -------------------------------------------------------------------------------------
class Hist:
    def __init__(self, c, name="H"):
        self.len = z3.Int(c.fresh_name(name + ".len"))
        self.fr = z3.Array(c.fresh_name(name + ".f"), I, R)
        self.fn = z3.Array(c.fresh_name(name + ".f?nan"), I, B)
        self.mr = z3.Array(c.fresh_name(name + ".m"), I, R)
        self.mn = z3.Array(c.fresh_name(name + ".m?nan"), I, B)
        c.assume(self.len >= 0)
        j = z3.Int("vcx_j")
        for A in (self.fr, self.mr):      # every recorded value is a float: -inf <= value <= +inf (or NaN, flagged separately)
            c.pc.append(z3.ForAll([j], z3.And(NINF <= A[j], A[j] <= PINF), patterns=[A[j]]))
        c.named[name] = self

    def _vcx_concretize(self, zm, val, cap):
        from pyvc.unit import _num
        n = _num(zm.eval(self.len, model_completion=True))
        if n is None or n > cap:
            return {"len": n, "elems": None}
        return [[val(self.f(z3.IntVal(i))), val(self.m(z3.IntVal(i)))] for i in range(max(n, 0))]

    def f(self, i): return SF(self.fr[i], self.fn[i], True)
    def m(self, i): return SF(self.mr[i], self.mn[i], True)

    def extended(self, f, m):
        h = Hist.__new__(Hist)
        h.len = self.len + 1
        h.fr, h.fn = z3.Store(self.fr, self.len, f.r), z3.Store(self.fn, self.len, f.nan)
        h.mr, h.mn = z3.Store(self.mr, self.len, m.r), z3.Store(self.mn, self.len, m.nan)
        return h


def fd(f, m):
    """fully defined"""
    return z3.And(z3.Not(f.nan), z3.Not(m.nan))


def dom(fq, mq, fp, mp):
    """(fq, mq) is fully defined and dominates (fp, mp)."""
    return z3.And(fd(fq, mq), fq.r <= fp.r, mq.r <= mp.r)


def hasnan(f, m):
    return z3.Or(f.nan, m.nan)


def nomix_at(F, M, clean, j):
    """NOMIX at index j for the ghost flag `clean` (every entry fully defined) / not clean (every entry has a NaN)."""
    f, m = F.at(j), M.at(j)
    return z3.And(z3.Implies(clean, fd(f, m)), z3.Implies(z3.Not(clean), hasnan(f, m)))


def nomix_all(F, M, clean, upto=None):
    j = z3.Int("vcx_j")
    return z3.ForAll([j], z3.Implies(z3.And(0 <= j, j < (F.len if upto is None else upto)), nomix_at(F, M, clean, j)), patterns=[F.nan[j]])


def subset_inv(F, M, X, H, j):
    """SUBSET at index j (a z3 Int term)."""
    e = X.ids[j]
    return z3.And(0 <= e, e < H.len, feq(F.at(j), H.f(e)), feq(M.at(j), H.m(e)),
                  z3.Implies(j + 1 < F.len, X.ids[j] < X.ids[j + 1]))


def subset_all(F, M, X, H):
    j = z3.Int("vcx_j")
    return z3.ForAll([j], z3.Implies(z3.And(0 <= j, j < F.len), subset_inv(F, M, X, H, j)),
                     patterns=[X.ids[j]])


def hist_inv(FH, MH, H, j):
    """history lists hold the last len(FH) evaluations, in order: FH[j] == Hf[Hlen - len + j]."""
    e = H.len - FH.len + j
    return z3.And(feq(FH.at(j), H.f(e)), feq(MH.at(j), H.m(e)))


def hist_all(FH, MH, H):
    j = z3.Int("vcx_j")
    return z3.ForAll([j], z3.Implies(z3.And(0 <= j, j < FH.len), hist_inv(FH, MH, H, j)), patterns=[FH.r[j]])


# ---- the removal loop of Problem.__call__ (loop ordinal 0) -----------------------------------------------
class RemovalLoop(RangeLoop):
    prefix = "C03.problem_call.removal_loop"
    names = ("k", "remove_point")

    def havoc_state(self, L, env):
        slf = env["self"]
        g = L.c.ghost["pbcall"]
        g["L0"] = slf._fun_filter.len       # length right after the append (old length + 1)
        slf._fun_filter = SList("F", register=False)
        slf._maxcv_filter = SList("M", register=False)
        slf._x_filter = XList("X")
        g["w"] = z3.Int(L.c.fresh_name("cover.w"))
        return {"remove_point": None}

    def inv(self, L, env, k, mode):
        slf = env["self"]
        F, M, X = slf._fun_filter, slf._maxcv_filter, slf._x_filter
        g = L.c.ghost["pbcall"]
        H1 = g["H1"]                     # history including the current evaluation
        fv, mv = g["fnew"], g["mnew"]
        Ln = F.len
        L0 = g.get("L0", F.len)
        out = []
        out.append(("align", z3.And(M.len == Ln, X.len == Ln, Ln >= 1, Ln <= L0, -1 <= k, k <= Ln - 2,
                                    feq(F.at(Ln - 1), fv), feq(M.at(Ln - 1), mv), X.ids[Ln - 1] == H1.len - 1)))
        if mode == "assume":
            out.append(("subset", subset_all(F, M, X, H1)))
            w = g["w"]
            out.append(("cover", z3.Implies(g["cover_applies"], z3.And(0 <= w, w < Ln, dom(F.at(w), M.at(w), g["fp"], g["mp"])))))
        else:
            j = z3.Int(L.c.fresh_name("vcx_any"))
            out.append(("subset", z3.Implies(z3.And(0 <= j, j < Ln), subset_inv(F, M, X, H1, j))))
            cands = [g["w0"], Ln - 1] + ([g["w"], g["w"] - 1] if "w" in g else []) + list(L.c.witnesses)
            out.append(("cover", z3.Implies(g["cover_applies"],
                                            z3.Or(*[z3.And(0 <= w, w < Ln, dom(F.at(w), M.at(w), g["fp"], g["mp"])) for w in cands]))))
        # NOMIX while the newcomer (last entry) evicts: the old entries keep their flag; a NaN newcomer was admitted among NaN entries
        # only; a fully defined newcomer has already evicted every NaN entry above k
        clean0 = g["clean0"]
        new_fd, new_nan = fd(fv, mv), hasnan(fv, mv)
        if mode == "assume":
            jj = z3.Int("vcx_j")
            out.append(("nomix_old", nomix_all(F, M, clean0, upto=Ln - 1)))
            out.append(("nomix_nan_newcomer", z3.Implies(new_nan, z3.ForAll([jj], z3.Implies(z3.And(0 <= jj, jj < Ln - 1), hasnan(F.at(jj), M.at(jj))),
                                                                            patterns=[F.nan[jj]]))))
            out.append(("nomix_defined_newcomer", z3.Implies(new_fd, z3.ForAll([jj], z3.Implies(z3.And(k < jj, jj < Ln - 1), fd(F.at(jj), M.at(jj))),
                                                                                patterns=[F.nan[jj]]))))
        else:
            j2 = z3.Int(L.c.fresh_name("vcx_any"))
            out.append(("nomix_old", z3.Implies(z3.And(0 <= j2, j2 < Ln - 1), nomix_at(F, M, clean0, j2))))
            out.append(("nomix_nan_newcomer", z3.Implies(z3.And(new_nan, 0 <= j2, j2 < Ln - 1), hasnan(F.at(j2), M.at(j2)))))
            out.append(("nomix_defined_newcomer", z3.Implies(z3.And(new_fd, k < j2, j2 < Ln - 1), fd(F.at(j2), M.at(j2)))))
        return out


_SH = {}
SPECS = {"pbcall.removal": RemovalLoop()}


def pb_shadow():
    if "m" not in _SH:
        _SH["m"] = shadow("cobyqa.problem", specs=SPECS, cuts={("Problem.__call__", 0): "pbcall.removal"},
                          expect_loops={"Problem.__call__": 1})
    return _SH["m"]


class StopRequested(Exception):
    pass


def mk_problem(c, m, callback_mode):
    """A Problem in an arbitrary state satisfying the filter/history invariants, with contract stubs for its callees."""
    P = m.Problem
    pb = P.__new__(P)
    H = Hist(c)
    F, M, X = SList("F"), SList("M"), XList("X")
    pb._fun_filter, pb._maxcv_filter, pb._x_filter = F, M, X
    pb._filter_size = SI(z3.Int(c.fresh_name("filter_size")))
    c.named["filter_size"] = pb._filter_size
    c.assume(pb._filter_size.t >= 1)
    c.assume(z3.And(M.len == F.len, X.len == F.len, F.len <= pb._filter_size.t, F.len <= H.len))
    c.assume(subset_all(F, M, X, H))
    clean0 = z3.Bool(c.fresh_name("filter_all_defined"))
    c.assume(nomix_all(F, M, clean0))
    c.ghost.setdefault("pbcall", {})["clean0"] = clean0
    # history lists
    sh = SB(z3.Bool(c.fresh_name("store_history")))
    c.named["store_history"] = sh
    pb._store_history = sh
    pb._history_size = SI(z3.Int(c.fresh_name("history_size")))
    c.named["history_size"] = pb._history_size
    c.assume(pb._history_size.t >= 1)
    FH, MH, XH = SList("FH"), SList("MH"), XList("XH")
    pb._fun_history, pb._maxcv_history, pb._x_history = FH, MH, XH
    c.assume(z3.Implies(sh.t, z3.And(MH.len == FH.len, XH.len == FH.len, FH.len <= pb._history_size.t, FH.len <= H.len,
                                     z3.Or(FH.len == H.len, FH.len == pb._history_size.t))))
    c.assume(z3.Implies(sh.t, hist_all(FH, MH, H)))
    pb._feasibility_tol = SF.fresh("feasibility_tol", finite=True)
    return pb, H


class ProblemCall(Unit):
    name = "pbcall.problem_call"
    props = ("C03", "C05", "C06", "C08", "C20", "C09", "C02", "C07")
    optional_provides = {"nomix": "filter.nomix"}      # NOMIX is an optional invariant: required only if best_eval relies on it
    fmodel = "ORDER"
    functions = [("cobyqa.problem", "Problem.__call__")]
    replay = ("contracts.replays", "problem_call")
    timeout_ms = 20000
    parallel = True
    assumptions = ["contract stubs for Problem.build_x, ObjectiveFunction.__call__, NonlinearConstraints.__call__, Problem.maxcv, "
                   "Problem.best_eval (each verified by its own unit) replace the callees of Problem.__call__"]

    def run(self, c):
        m = pb_shadow()
        g = c.ghost["pbcall"] = {}
        cbmode = c.choose("callback", 3, ["none", "kw", "pos"])
        pb, H = mk_problem(c, m, cbmode)
        F0, M0, X0 = pb._fun_filter.snapshot(), pb._maxcv_filter.snapshot(), pb._x_filter.snapshot()
        FH0, MH0 = pb._fun_history.snapshot(), pb._maxcv_history.snapshot()
        fnew = SF.fresh("fun_raw")             # whatever the objective returns: any float, NaN, +-inf
        mnew = SF.fresh("maxcv_raw")
        c.assume(z3.Or(mnew.nan, mnew.r >= 0))   # contract of Problem.maxcv: a maximum with initial=0.0, or NaN
        g["fnew"], g["mnew"] = fnew, mnew
        H1 = H.extended(fnew, mnew)
        g["H0"], g["H1"] = H, H1
        # arbitrary fully defined point p of the history *after* this call, and its old cover witness w0
        p = z3.Int(c.fresh_name("p"))
        fp, mp = H1.f(p), H1.m(p)
        w0 = z3.Int(c.fresh_name("cover.w0"))
        g["fp"], g["mp"], g["w0"], g["p"] = fp, mp, w0, p
        c.named["cover_p_f"], c.named["cover_p_m"] = fp, mp
        cover_applies = z3.And(pb._filter_size.t > H1.len, 0 <= p, p < H1.len, fd(fp, mp))
        g["cover_applies"] = cover_applies
        # COVER of the pre-state, instantiated at p (for p < Hlen); the new point p == Hlen is covered by itself
        c.assume(z3.Implies(z3.And(cover_applies, p < H.len),
                            z3.And(0 <= w0, w0 < F0.len, dom(F0.at(w0), M0.at(w0), fp, mp))))
        # ---- contract stubs of the callees ------------------------------------------------------------
        x_in = OpaquePoint(H.len)                       # the reduced point being evaluated; ghost id = its eval index
        x_full = OpaquePoint(H.len, tags=("inbox", "full"))
        m_ub = z3.Int(c.fresh_name("m_ub"))
        m_eq = z3.Int(c.fresh_name("m_eq"))
        c.assume(z3.And(m_ub >= 0, m_eq >= 0))
        cub = vecs.fresh_vec("cub_raw", m_ub)
        ceq = vecs.fresh_vec("ceq_raw", m_eq)
        nev0 = z3.Int(c.fresh_name("n_eval0"))
        g["nev"] = nev0

        def build_x(x):
            c.log.append(("build_x", x))
            if x is x_in:
                return x_full
            return OpaquePoint(getattr(x, "eid", None), tags=("inbox", "full"))

        fn_sb = SB(z3.Bool(c.fresh_name("fun_is_none")))
        c.named["fun_is_none"] = fn_sb
        fun_is_none = bool(fn_sb)

        class Obj:
            """contract of ObjectiveFunction.__call__ (unit problem.objective_call): counts only real objective calls"""
            def __init__(self):
                self.n_eval = SI(z3.Int(c.fresh_name("obj_n_eval")))

            def __call__(self, xf):
                c.log.append(("obj", xf))
                if not fun_is_none:
                    self.n_eval = self.n_eval + 1
                return fnew
        obj = Obj()
        pb._n_eval = SI(nev0)      # the evaluation counter of Problem (|H| by the object invariant)
        c.assume(obj.n_eval.t == z3.If(z3.BoolVal(fun_is_none), 0, nev0))

        class NL:
            """contract of NonlinearConstraints.__call__ / .n_eval: the counter is SciPy's nfev of the first constraint object (0 when
            there is no nonlinear constraint), at most one more per call"""
            def __init__(self):
                self.has = z3.Bool(c.fresh_name("has_nonlinear_constraints"))
                self.n_eval = SI(z3.Int(c.fresh_name("nl_n_eval")))
                c.assume(z3.If(self.has, z3.And(self.n_eval.t >= 0, self.n_eval.t <= nev0), self.n_eval.t == 0))

            def __call__(self, xf):
                c.log.append(("con", xf))
                k_ = z3.Int(c.fresh_name("nl_n_eval"))
                c.assume(z3.If(self.has, z3.And(k_ >= self.n_eval.t, k_ <= self.n_eval.t + 1), k_ == 0))
                self.n_eval = SI(k_)
                return cub, ceq
        nonlinear = NL()

        def maxcv(x, cv=None, ce=None):
            c.log.append(("maxcv", x, cv is cub, ce is ceq))
            return mnew

        best = {}

        def best_eval(penalty):
            # contract of Problem.best_eval on a non-empty filter: no evaluation, returns one retained triple
            Fc, Mc, Xc = pb._fun_filter, pb._maxcv_filter, pb._x_filter
            c.oblige("C06.problem_call.best_eval_pre.filter_nonempty", Fc.len >= 1, props=["C06", "C05", "C20"])
            i = z3.Int(c.fresh_name("best.i"))
            c.assume(z3.And(0 <= i, i < Fc.len))
            best["i"] = i
            best["penalty"] = penalty
            c.log.append(("best_eval", penalty))
            xb = OpaquePoint(Xc.ids[i])
            best["x"] = xb
            return xb, Fc.at(i), Mc.at(i)
        pb.build_x = build_x
        pb._obj = obj
        pb._nonlinear = nonlinear
        pb.maxcv = maxcv
        pb.best_eval = best_eval
        cb_events = []

        def cb_kw(intermediate_result):
            cb_events.append(("kw", intermediate_result))
            c.log.append(("callback", intermediate_result.x))
            if c.choose("callback_raises", 2, ["no", "stop"]):
                raise StopIteration

        def cb_pos(xk):
            cb_events.append(("pos", xk))
            c.log.append(("callback", xk))
            if c.choose("callback_raises", 2, ["no", "stop"]):
                raise StopIteration
        pb._callback = [None, cb_kw, cb_pos][cbmode]
        penalty = SF.fresh("penalty")
        from cobyqa.utils import CallbackSuccess
        kind, res = call_expecting(c, "C08.problem_call", lambda: pb(x_in, penalty), (CallbackSuccess,))
        F, M, X = pb._fun_filter, pb._maxcv_filter, pb._x_filter
        # ---- evaluation counter (C05.O1): exactly one more, whatever the objective is (also fun=None) ----------------
        n_after = type(pb).n_eval.fget(pb)
        c.oblige("C05.problem_call.post.n_eval_incremented", it(n_after) == nev0 + 1, props=["C05", "C07"],
                 note="Problem.n_eval must count every evaluated point, also for feasibility problems (fun=None)")
        # ---- effects (C06 / C20) --------------------------------------------------------------------------
        ev = [e[0] for e in c.log]
        user = [e for e in c.log if e[0] in ("obj", "con", "callback")]
        exp = ["obj", "con"] + (["callback"] if cbmode else [])
        c.oblige("C06.problem_call.effects.user_calls", z3.BoolVal([e[0] for e in user] == exp), props=["C06", "C20", "C09"],
                 note=f"user-function events {[e[0] for e in user]} expected {exp}")
        c.oblige("C06.problem_call.effects.evaluated_at_full_point",
                 z3.BoolVal(all(e[1] is x_full for e in user if e[0] in ("obj", "con"))), props=["C06", "C01"])
        c.oblige("C06.problem_call.effects.maxcv_uses_fresh_values",
                 z3.BoolVal(all(e[2] and e[3] for e in c.log if e[0] == "maxcv")), props=["C06", "C02"])
        if cbmode:
            # callback after the filter update, with the best point so far rebuilt in user space, once
            i_cb = ev.index("callback")
            c.oblige("C20.problem_call.callback_after_filter_update", z3.BoolVal("best_eval" in ev[:i_cb] and ev.count("callback") == 1),
                     props=["C20"])
            arg = [e for e in c.log if e[0] == "callback"][0][1]
            c.oblige("C20.problem_call.callback_gets_rebuilt_best_point",
                     z3.BoolVal(isinstance(arg, OpaquePoint) and "inbox" in arg.tags and "eid" in arg.ghost)
                     if not isinstance(arg, OpaquePoint) else z3.And(z3.BoolVal("inbox" in arg.tags), arg.eid == X.ids[best["i"]]),
                     props=["C20", "C01"])
            if cb_events[0][0] == "kw":
                ir = cb_events[0][1]
                c.oblige("C20.problem_call.callback_fun_is_best_fun", feq(ir.fun, F.at(best["i"])), props=["C20"])
                c.oblige("C20.problem_call.callback_convention", z3.BoolVal(cbmode == 1), props=["C20"])
            else:
                c.oblige("C20.problem_call.callback_convention", z3.BoolVal(cbmode == 2), props=["C20"])
            c.oblige("C20.problem_call.callback_penalty", z3.BoolVal(best["penalty"] is penalty), props=["C20", "C09"])
        if kind == "exc":
            raised = cbmode and c.log and True
            c.oblige("C07.problem_call.callback_success_only_if_callback_raised",
                     z3.BoolVal(bool(cbmode) and any(n.startswith("callback_raises") for n in c.nfresh)), props=["C07", "C09"])
        # ---- filter invariants (C03) -------------------------------------------------------------------------
        Ln = F.len
        c.oblige("C03.problem_call.post.align", z3.And(M.len == Ln, X.len == Ln, Ln >= 1), props=["C03", "C02"])
        c.oblige("C03.problem_call.post.bound", Ln <= pb._filter_size.t, props=["C03"])
        j = z3.Int(c.fresh_name("vcx_any"))
        c.oblige("C03.problem_call.post.subset", z3.Implies(z3.And(0 <= j, j < Ln), subset_inv(F, M, X, H1, j)), props=["C03", "C02"])
        i1, i2 = z3.Int(c.fresh_name("vcx_any")), z3.Int(c.fresh_name("vcx_any"))
        c.oblige("C03.problem_call.post.nomix",
                 z3.Implies(z3.And(0 <= i1, i1 < Ln, 0 <= i2, i2 < Ln), z3.Not(z3.And(fd(F.at(i1), M.at(i1)), hasnan(F.at(i2), M.at(i2))))),
                 props=["C03", "C08", "C02", "C06", "C20", "C09", "C07"], note="a fully defined entry and an entry with a NaN coexist in the filter")
        cands = [w0, Ln - 1, w0 - 1] + ([g["w"], g["w"] - 1] if "w" in g else []) + list(c.witnesses)
        c.oblige("C03.problem_call.post.cover",
                 z3.Implies(cover_applies, z3.Or(*[z3.And(0 <= w, w < Ln, dom(F.at(w), M.at(w), fp, mp)) for w in cands])),
                 props=["C03"], note="a fully defined evaluated point is not covered by the filter")
        # raw values are what is stored (C02 / C08: reported values stay raw)
        # ---- history (C05.O4) -----------------------------------------------------------------------------------
        FH, MH = pb._fun_history, pb._maxcv_history
        sh = pb._store_history.t
        hs = pb._history_size.t
        c.oblige("C05.problem_call.post.history_len",
                 z3.Implies(sh, z3.And(MH.len == FH.len, FH.len == z3.If(H1.len <= hs, H1.len, hs))), props=["C05"])
        # instantiation hints: instances of the assumed pre-state invariant hist_all(FH0, MH0, H) (sound: implied by it)
        for idx in (j, j + 1):
            c.assume(z3.Implies(z3.And(pb._store_history.t, 0 <= idx, idx < FH0.len), hist_inv(FH0, MH0, H, idx)))
        c.oblige("C05.problem_call.post.history_content",
                 z3.Implies(z3.And(sh, 0 <= j, j < FH.len), hist_inv(FH, MH, H1, j)), props=["C05", "C02"])
        c.oblige("C05.problem_call.post.no_history_when_off", z3.Implies(z3.Not(sh), FH.len == FH0.len), props=["C05"])
        if kind == "exc":
            return
        # ---- barrier (C08.O2) -----------------------------------------------------------------------------------
        fun_val, cub_val, ceq_val = res
        Bv = realval(BARRIER)
        fv = SF.lift(fun_val)
        c.oblige("C08.problem_call.post.fun_barrier", z3.And(z3.Not(fv.nan), fv.r <= Bv, fv.r >= -Bv), props=["C08", "C12"])
        c.oblige("C08.problem_call.post.fun_value", z3.Implies(z3.And(z3.Not(fnew.nan), fnew.r <= Bv, fnew.r >= -Bv), fv.r == fnew.r),
                 props=["C08", "C12"])
        for nm, v, raw in (("cub", cub_val, cub), ("ceq", ceq_val, ceq)):
            i = z3.Int(c.fresh_name("vcx_any"))
            e = v.at(i)
            r0 = raw_at(g, nm, i, raw)
            c.oblige(f"C08.problem_call.post.{nm}_barrier",
                     z3.Implies(z3.And(0 <= i, i < v.n), z3.And(z3.Not(e.nan), e.r <= Bv, e.r >= -Bv)), props=["C08", "C12"])
            c.oblige(f"C08.problem_call.post.{nm}_length", v.n == raw.n)


def raw_at(g, nm, i, raw):
    return raw.at(i)


UNITS = [ProblemCall()]
