"""z3-free spec tables (documented domains / relations of the constants) for native replays."""
CONST_DOMAINS = {
    "decrease_radius_factor": ("f", 0, True, 1, True),
    "increase_radius_factor": ("f", 1, True, None, None),
    "increase_radius_threshold": ("f", 1, True, None, None),
    "decrease_radius_threshold": ("f", 1, True, None, None),
    "decrease_resolution_factor": ("f", 0, True, 1, True),
    "large_resolution_threshold": ("f", 1, True, None, None),
    "moderate_resolution_threshold": ("f", 1, True, None, None),
    "low_ratio": ("f", 0, True, 1, True),
    "high_ratio": ("f", 0, True, 1, True),
    "very_low_ratio": ("f", 0, True, 1, True),
    "penalty_increase_threshold": ("f", 1, False, None, None),
    "penalty_increase_factor": ("f", 1, True, None, None),
    "short_step_threshold": ("f", 0, True, 1, True),
    "low_radius_factor": ("f", 0, True, 1, True),
    "byrd_omojokun_factor": ("f", 0, True, 1, True),
    "threshold_ratio_constraints": ("f", 1, True, None, None),
    "large_shift_factor": ("f", 0, False, None, None),
    "large_gradient_factor": ("f", 1, True, None, None),
    "resolution_factor": ("f", 1, True, None, None),
    "improve_tcg": ("b", None, None, None, None),
}
# coupling relations documented for the constants: (a, rel, b)
CONST_RELATIONS = [
    ("decrease_radius_threshold", "<", "increase_radius_factor"),
    ("moderate_resolution_threshold", "<=", "large_resolution_threshold"),
    ("low_ratio", "<=", "high_ratio"),
    ("penalty_increase_threshold", "<=", "penalty_increase_factor"),
]
