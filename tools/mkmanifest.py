#!/usr/bin/env python3
"""Regenerate /verif/MANIFEST.json from the table below (kept in one place so it stays valid)."""
import json, os
HERE = os.path.dirname(os.path.dirname(os.path.abspath(__file__)))
BASELINE = "cd /repo && /venv/bin/python -m pytest -ra -q -p no:cacheprovider --timeout=900 --continue-on-collection-errors"

CLAIMS = {
    "C18": dict(
        category="proof",
        text="Every scalar update rule of the trust-region state (radius setter, update_radius, enhance_resolution, the "
             "short-step shrink) is executed from the real source on symbolic values over the documented constant domains; "
             "all paths are enumerated and the object invariant radius_final <= resolution <= radius, strict decrease and the "
             "contraction lemma of the resolution are discharged by z3 for all inputs.",
        design_ref="5 C18",
        note="REAL float model (machine arithmetic treated as mathematical) for products/sqrt; constants assumed to satisfy "
             "the postcondition of _set_default_constants (proved under C19); callee = contract; termination not verified.",
        technique="deductive: symbolic execution of the real bodies + z3 (NRA) per obligation",
    ),
}
CLAIMS["C19"] = dict(
    category="proof",
    text="The real _set_default_options and _set_default_constants are executed on dicts with symbolic key presence (all 2^13 / 2^20 "
         "subsets of supplied keys at once, every real value): ValueError is raised iff a supplied value leaves its documented "
         "domain or a supplied pair violates its documented order; otherwise every key is present, typed, in its domain, all "
         "documented relations hold, supplied values are kept and unsupplied ones equal the documented default / derivation; an "
         "unknown name yields exactly one RuntimeWarning. ~5000 paths, ~40000 obligations, all discharged.",
    design_ref="5 C19",
    note="Supplied numeric values range over the reals (NaN outside the quantifier, N6); REAL float model; the spec tables are "
         "transcribed from the docstring of minimize (contracts/spec_plain.py, contracts/c19.py); the early history_size/"
         "filter_size checks of minimize are covered by the minimize unit.",
    technique="deductive: symbolic-presence dicts + path enumeration of the real validators, z3 (LRA/NIA)",
)
CLAIMS["C03"] = dict(
    category="proof",
    text="The real Problem.__call__ (filter insertion test, removal loop cut at the invariant ALIGN/SUBSET/COVER, FIFO eviction) and the "
         "real Problem.best_eval are executed on filter lists of symbolic length with arbitrary float contents (NaN, +-inf, ties): the "
         "filter invariants are preserved by every call, and best_eval returns the entry prescribed by the documented six-tier rule "
         "(feasible first, least objective, ties by violation then recency; least merit otherwise), written from the statement.",
    design_ref="5 C03",
    note="ORDER float model (comparisons exact, merit arithmetic uninterpreted with IEEE monotonicity); callees of Problem.__call__ are "
         "contract stubs; COVER is claimed for the unbounded filter (filter_size > number of evaluations), the finite-filter clause "
         "is the selection rule over the retained entries.",
    technique="deductive: symbolic lists + loop invariant + quantified VCs, z3 (E-matching / MBQI) per obligation",
)
NOT_YET = "no check registered yet in this revision (machinery under construction); not claimed"
NA = {
    "C04": "convergence to the minimiser on reference problems is a whole-run limit property of a floating-point iteration; "
           "no per-function contract or data-structure invariant implies it (DESIGN.md section 6)",
}
ALL = [f"C{i:02d}" for i in range(1, 21)]


def main():
    checks = []
    for pid in ALL:
        if pid not in CLAIMS:
            continue
        c = CLAIMS[pid]
        checks.append({
            "property_id": pid,
            "quick_cmd": f"./check {pid} --tier quick",
            "thorough_cmd": f"./check {pid} --tier thorough",
            "evidence_file": f"evidence/{pid}.json",
            "replay_cmd_template": f"./check {pid} --replay {{path}}",
            "engine": "pyvc",
            "level_claimed": {"category": c["category"], "text": c["text"], "design_ref": c["design_ref"]},
            "level_note": c["note"],
            "technique": c["technique"],
        })
    na = [{"property_id": p, "reason": NA.get(p, NOT_YET)} for p in ALL if p not in CLAIMS]
    man = {
        "version": 1,
        "setup_cmd": "./setup.sh",
        "hooks": {"guard": "COBYQA_VERIF", "enable": "none needed: the verifier re-reads /repo sources and builds shadow modules; "
                  "no instrumentation is compiled into cobyqa", "baseline_off_cmd": BASELINE, "source_commits": [], "add_only": True},
        "engines": [{"name": "pyvc", "path": "pyvc/", "serves_properties": sorted(CLAIMS),
                     "kind_free_text": "home-built deductive verifier for the Python subset of cobyqa: AST-transformed real "
                     "sources executed on symbolic proxies, loop cuts at sidecar invariants, callee contracts, z3/cvc5"}],
        "checks": checks,
        "not_applicable": na,
        "notes": "Exit codes of ./check: 0 held, 1 VIOLATION, 2 undecided (never a violation), 3 engine failure. "
                 "known_findings.json lists recorded findings and fixed defects.",
    }
    with open(os.path.join(HERE, "MANIFEST.json"), "w") as fh:
        json.dump(man, fh, indent=1)
    print("MANIFEST.json:", len(checks), "checks,", len(na), "not applicable")


if __name__ == "__main__":
    main()
