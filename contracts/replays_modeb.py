"""z3-free native replays for the Mode-B units (run under the repository's own interpreter on the REAL, untransformed code).

d8_update_skipped: concrete float witness of D8 (models.py, Models.update_interpolation):
    ill_conditioned = ill_conditioned or self._cub[i].update(...)
short-circuits, so as soon as the objective's update reports an ill-conditioned system the constraint models are never
updated.  The witness needs no stub: n=2, npt=3, points (0,0),(1,0),(0,1); the point of index 2 is replaced by (2,0).
The new set is collinear, the second coordinate row of the system matrix is identically zero, eigh returns an eigenvalue
that is exactly 0, hence the real solve_systems reports ill_conditioned=True.  The system is singular but consistent (three
collinear values are interpolated by the least-norm quadratic), so the objective model - which IS updated - reproduces its
new value to rounding, while the skipped constraint models miss theirs by O(1).
"""
import numpy as np


def d8_update_skipped(**inp):
    from cobyqa.models import Models, Interpolation, Quadratic
    n, npt, k_new = 2, 3, 2
    it = Interpolation.__new__(Interpolation)
    it._debug = False
    it._x_base = np.zeros(n)
    it._xpt = np.array([[0.0, 1.0, 0.0], [0.0, 0.0, 1.0]])
    it._lhs_cache = None

    def f(x):
        return 1.0 + x[0] ** 2 + 2.0 * x[1]

    def g(x):
        return 3.0 * x[0] ** 2 - x[0] + x[1]

    def h(x):
        return -2.0 * x[0] ** 2 + 0.5 * x[1]
    pts = [it.point(k) for k in range(npt)]
    M = Models.__new__(Models)
    M._debug = False
    M._interpolation = it
    M._fun_val = np.array([f(p) for p in pts])
    M._cub_val = np.array([[g(p)] for p in pts])
    M._ceq_val = np.array([[h(p)] for p in pts])
    M._fun = Quadratic(it, M._fun_val, False)
    M._cub = np.empty(1, dtype=Quadratic)
    M._ceq = np.empty(1, dtype=Quadratic)
    M._cub[0] = Quadratic(it, M._cub_val[:, 0], False)
    M._ceq[0] = Quadratic(it, M._ceq_val[:, 0], False)
    pre = max(abs(M.fun(p) - M.fun_val[k]) for k, p in enumerate(pts))
    pre = max(pre, max(abs(M.cub(p)[0] - M.cub_val[k, 0]) for k, p in enumerate(pts)))
    pre = max(pre, max(abs(M.ceq(p)[0] - M.ceq_val[k, 0]) for k, p in enumerate(pts)))

    calls = []
    real_update = Quadratic.update

    def counting_update(self, *a, **kw):       # observation only: the real body runs unchanged
        calls.append(id(self))
        return real_update(self, *a, **kw)
    Quadratic.update = counting_update
    try:
        x_new = np.array([2.0, 0.0])
        ret = M.update_interpolation(k_new, x_new, float(f(x_new)), np.array([g(x_new)]), np.array([h(x_new)]))
    finally:
        Quadratic.update = real_update
    counts = {"fun": calls.count(id(M._fun)), "cub[0]": calls.count(id(M._cub[0])), "ceq[0]": calls.count(id(M._ceq[0]))}
    res = {"fun": float(abs(M.fun(x_new) - M.fun_val[k_new])),
           "cub[0]": float(abs(M.cub(x_new)[0] - M.cub_val[k_new, 0])),
           "ceq[0]": float(abs(M.ceq(x_new)[0] - M.ceq_val[k_new, 0]))}
    skipped = [k for k, v in counts.items() if v != 1]
    reproduced = bool(ret) and counts["fun"] == 1 and bool(skipped) and pre < 1e-9 \
        and res["fun"] < 1e-9 and max(res["cub[0]"], res["ceq[0]"]) > 1e-3
    return {"reproduced": reproduced,
            "observed": {"update_interpolation_returned_ill_conditioned": bool(ret), "update_calls": counts,
                         "max_interpolation_error_before": float(pre), "abs_error_at_new_point_after": res,
                         "models_never_updated": skipped},
            "required": "every model (objective, each cub, each ceq) receives exactly one update() and reproduces its "
                        "newly recorded value at the new point",
            "witness": "n=2, npt=3, x_base=0, points (0,0),(1,0),(0,1); k_new=2, x_new=(2,0); fun=1+x0^2+2x1, "
                       "cub=3x0^2-x0+x1, ceq=-2x0^2+0.5x1"}
