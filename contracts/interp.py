"""models.Interpolation.__init__ under contract (C01.O3: the initial interpolation points are inside the bounds by construction;
C18.O1: the initial radii are fitted to the box keeping radius_final <= radius_init).  REAL model, every n, every npt, every
closeness pattern of x0 to the bounds.

Loop `for k in range(1, npt)` (ordinal 0) is cut at the invariant
  ZERO   columns >= k of xpt are zero
  BOX    for every column c < k and row i:  xl_i <= x_base_i + xpt[i, c] <= xu_i
  AXIS   for 1 <= c <= min(k-1, n): xpt[., c] is zero except xpt[c-1, c], which is -rhobeg if x_base[c-1] sits on its upper bound
         ("very close" flag) and +rhobeg otherwise
"""
import types
import z3
from pyvc.core import cur, SB, PathEnd, Unsupported, tobool
from pyvc.unit import Unit, call_expecting
from pyvc.values import SF, SI, it, I, R, B, PINF, NINF, feq
from pyvc.shims import RangeLoop
from pyvc import vecs
from .common import shadow

_SH = {}


class PlacementLoop(RangeLoop):
    prefix = "C01.interpolation_init.loop"
    names = ("k", "spread", "k1", "k2")

    def havoc_state(self, L, env):
        c = L.c
        slf = env["self"]
        old = slf._xpt
        A = z3.Array(c.fresh_name("xpt"), I, z3.ArraySort(I, R))
        j = z3.Int("vcx_j")
        i = z3.Int("vcx_i2")
        c.pc.append(z3.ForAll([i, j], z3.And(NINF < A[i][j], A[i][j] < PINF), patterns=[A[i][j]]))
        slf._xpt = vecs.SM2(old.nr, old.nc, lambda r, q: SF(A[r][q]))
        L.st["A"] = A
        return {"spread": None, "k1": None, "k2": None}

    def inv(self, L, env, k, mode):
        from cobyqa.settings import Options
        slf, pb, o = env["self"], env["pb"], env["options"]
        X = slf._xpt
        n, npt = X.nr, X.nc
        xb, xl, xu = slf._x_base, pb.bounds.xl, pb.bounds.xu
        vcu = env["very_close_xu_idx"]
        rb = SF.lift(o[Options.RHOBEG]).r
        r, q = z3.Int("vcx_r"), z3.Int("vcx_q")
        if mode == "prove":
            r, q = z3.Int(L.c.fresh_name("vcx_anyr")), z3.Int(L.c.fresh_name("vcx_anyq"))
        e = X.at(r, q).r
        rng = z3.And(0 <= r, r < n, 0 <= q, q < npt)
        zero = z3.Implies(z3.And(rng, z3.Or(q >= k, q == 0)), e == 0)
        box = z3.Implies(z3.And(rng, q < k), z3.And(xl.at(r).r <= xb.at(r).r + e, xb.at(r).r + e <= xu.at(r).r))
        axis = z3.Implies(z3.And(rng, 1 <= q, q < k, q <= n),
                          z3.If(r == q - 1, e == z3.If(tobool(vcu.at(q - 1)), -rb, rb), e == 0))
        if mode == "prove":
            return [("columns_ahead_zero", zero), ("points_inside_bounds", box), ("axis_points", axis)]
        pat = [X.at(r, q).r]
        return [("columns_ahead_zero", z3.ForAll([r, q], zero, patterns=pat)), ("points_inside_bounds", z3.ForAll([r, q], box, patterns=pat)),
                ("axis_points", z3.ForAll([r, q], axis, patterns=pat))]


def models_shadow():
    if "m" not in _SH:
        _SH["m"] = shadow("cobyqa.models", specs={"interp.placement": PlacementLoop()}, cuts={("Interpolation.__init__", 0): "interp.placement"},
                          expect_loops={"Interpolation.__init__": 1})
    return _SH["m"]


class InterpolationInit(Unit):
    name = "interp.interpolation_init"
    props = ("C01", "C18", "C12")
    fmodel = "REAL"
    functions = [("cobyqa.models", "Interpolation.__init__")]
    timeout_ms = 30000
    parallel = True

    def run(self, c):
        from cobyqa.settings import Options
        m = models_shadow()
        n = z3.Int(c.fresh_name("n"))
        npt = z3.Int(c.fresh_name("npt"))
        c.assume(z3.And(n >= 1, npt >= n + 1))
        c.size_hints += [n]
        xl = vecs.fresh_vec("xl", n, finite=True)
        xu = vecs.fresh_vec("xu", n, finite=True)
        x0 = vecs.fresh_vec("x0", n, finite=True)
        j = z3.Int("vcx_j")
        # pre (Problem.__init__): free variables have xl < xu, x0 was projected into the box.  Finite bounds here; infinite bounds
        # are the easier case (no clipping at that side) and are covered by the bounded end-to-end monitor.
        c.pc.append(z3.ForAll([j], z3.Implies(z3.And(0 <= j, j < n), z3.And(xl.at(j).r < xu.at(j).r, xl.at(j).r <= x0.at(j).r, x0.at(j).r <= xu.at(j).r)),
                              patterns=[x0.at(j).r]))
        pb = types.SimpleNamespace(bounds=types.SimpleNamespace(xl=xl, xu=xu), x0=x0, n=SI(n))
        rb0, re0 = SF.fresh("radius_init", finite=True), SF.fresh("radius_final", finite=True)
        c.assume(z3.And(rb0.r > 0, re0.r >= 0, re0.r <= rb0.r))
        opts = {Options.DEBUG.value: False, Options.RHOBEG.value: rb0, Options.RHOEND.value: re0, Options.NPT.value: SI(npt)}
        I_ = m.Interpolation
        ip = I_.__new__(I_)
        kind, res = call_expecting(c, "C08.interpolation_init", lambda: ip.__init__(pb, opts), ())
        rb, re_ = SF.lift(opts[Options.RHOBEG]), SF.lift(opts[Options.RHOEND])
        i = z3.Int(c.fresh_name("vcx_any"))
        rng = z3.And(0 <= i, i < n)
        c.oblige("C18.interpolation_init.radii_fit_the_box",
                 z3.And(rb.r > 0, re_.r >= 0, re_.r <= rb.r, rb.r <= rb0.r, re_.r <= re0.r, z3.Implies(rng, 2 * rb.r <= xu.at(i).r - xl.at(i).r)),
                 props=["C18", "C01"])
        X = ip._xpt
        r, q = z3.Int(c.fresh_name("vcx_anyr")), z3.Int(c.fresh_name("vcx_anyq"))
        e = X.at(r, q).r
        xb = ip._x_base
        c.oblige("C01.interpolation_init.shape", z3.And(X.nr == n, X.nc == npt, xb.n == n), props=["C01", "C12"])
        c.oblige("C01.interpolation_init.every_point_inside_bounds",
                 z3.Implies(z3.And(0 <= r, r < n, 0 <= q, q < npt), z3.And(xl.at(r).r <= xb.at(r).r + e, xb.at(r).r + e <= xu.at(r).r)),
                 props=["C01"], note="an initial interpolation point lies outside the bounds")
        c.oblige("C01.interpolation_init.first_point_is_base", z3.Implies(z3.And(0 <= r, r < n), X.at(r, z3.IntVal(0)).r == 0), props=["C01", "C12"])
        c.oblige("C11.interpolation_init.x0_not_written", z3.BoolVal(x0.version == 0 and xb is not x0), props=["C01"])


UNITS = [InterpolationInit()]


# ---- the same constructor in the ORDER model (IEEE-sound: arithmetic uninterpreted, comparisons exact): the case analysis that snaps
# ---- the base point onto a bound or moves it one radius away has no gap *in floating point*.  The REAL-model proof above cannot see
# ---- a rewriting that is an identity over the reals but not over the floats (x <= xl + r/2  versus  x - xl <= r/2) -------------------
class FrameOnly(RangeLoop):
    names = ()


def models_shadow_order():
    if "mo" not in _SH:
        _SH["mo"] = shadow("cobyqa.models", specs={"interp.frame": FrameOnly()}, cuts={("Interpolation.__init__", 0): ("interp.frame", "frame")},
                           expect_loops={"Interpolation.__init__": 1})
    return _SH["mo"]


class BasePointSnap(Unit):
    name = "interp.base_point_snap"
    props = ("C01",)
    fmodel = "ORDER"
    functions = [("cobyqa.models", "Interpolation.__init__")]
    assumptions = ["the placement loop is replaced by a frame-only cut here (its invariant is proved in interp.interpolation_init, REAL model)"]

    def run(self, c):
        from cobyqa.settings import Options
        m = models_shadow_order()
        n = z3.Int(c.fresh_name("n"))
        npt = z3.Int(c.fresh_name("npt"))
        c.assume(z3.And(n >= 1, npt >= n + 1))
        xl = vecs.fresh_vec("xl", n, finite=True)
        xu = vecs.fresh_vec("xu", n, finite=True)
        x0 = vecs.fresh_vec("x0", n, finite=True)
        pb = types.SimpleNamespace(bounds=types.SimpleNamespace(xl=xl, xu=xu), x0=x0, n=SI(n))
        rb0, re0 = SF.fresh("radius_init", finite=True), SF.fresh("radius_final", finite=True)
        c.assume(z3.And(rb0.r > 0, re0.r >= 0, re0.r <= rb0.r))
        opts = {Options.DEBUG.value: False, Options.RHOBEG.value: rb0, Options.RHOEND.value: re0, Options.NPT.value: SI(npt)}
        I_ = m.Interpolation
        ip = I_.__new__(I_)
        kind, res = call_expecting(c, "C08.interpolation_init", lambda: ip.__init__(pb, opts), ())
        rho = SF.lift(opts[Options.RHOBEG])
        i = z3.Int(c.fresh_name("vcx_any"))
        z = ip._x_base.at(i)
        l, u = xl.at(i), xu.at(i)
        T2, U2 = l + rho, u - rho                      # the very expressions of the code (same uninterpreted terms)
        from pyvc.values import np_min2, np_max2
        lo_target, hi_target = np_min2(T2, u), np_max2(U2, l)
        snapped_low = z3.Or(feq(z, l), feq(z, lo_target), tobool(z > T2))
        c.oblige("C01.interpolation_init.base_point_snapped_or_a_radius_away",
                 z3.Implies(z3.And(0 <= i, i < n),
                            z3.Or(feq(z, u), feq(z, hi_target), z3.And(tobool(z < U2), snapped_low))),
                 props=["C01"],
                 note="a coordinate of the base point is neither snapped onto a bound nor moved one radius away from it: the case "
                      "analysis (very close / close / interior) has a gap in floating point")


UNITS.append(BasePointSnap())


# ---- bounded complement: the thresholds of the case analysis on concrete floats ------------------------------------------------------
class ThresholdCases(Unit):
    """The ORDER-model unit above refutes nothing definitely when the case analysis is rewritten (the solvers answer `unknown` on
    the quantified float axioms), and a counter-model of the uninterpreted arithmetic would not be a pair of floats anyway.  The real
    constructor is therefore also run on seeded starting points placed exactly on (and one ulp around) the four thresholds
    xl + r/2, xl + r, xu - r/2, xu - r for bounds with inexact decimal values."""
    name = "interp.bounded_thresholds"
    props = ("C01",)
    fmodel = "ORDER"
    functions = [("cobyqa.models", "Interpolation.__init__")]
    replay = ("contracts.replays", "interpolation_points_inside")
    bounded = "native run-time contract on 2000 seeded starting points on / one ulp around the four thresholds of the base-point case analysis"

    def run(self, c):
        import numpy as np
        from pyvc.transform import ensure_repo_on_path
        from .subsolvers_bounded import rng_for
        from .replays import interpolation_points_inside
        ensure_repo_on_path()
        rng = rng_for(self.name)
        bad = None
        N = 2000
        with np.errstate(all="ignore"):
            for k in range(N):
                n = int(rng.integers(1, 4))
                rho = float(rng.choice([1.0, 0.2, 0.5, 0.1, 2.0, 0.3]) * rng.choice([1.0, 1.0, 10.0 ** rng.integers(-3, 4)]))
                xl = np.round(rng.uniform(-3, 3, n), int(rng.integers(1, 4)))
                xu = xl + np.round(rng.uniform(2.0, 6.0, n) * rho, 3) + 2.0 * rho
                x0 = xl + rng.uniform(0.0, 1.0, n) * (xu - xl)
                j = int(rng.integers(0, n))
                th = [xl[j] + 0.5 * rho, xl[j] + rho, xu[j] - 0.5 * rho, xu[j] - rho][int(rng.integers(0, 4))]
                x0[j] = [th, np.nextafter(th, np.inf), np.nextafter(th, -np.inf)][int(rng.integers(0, 3))]
                x0 = np.clip(x0, xl, xu)
                case = dict(xl=xl.tolist(), xu=xu.tolist(), x0=x0.tolist(), radius_init=rho, npt=2 * n + 1)
                r = interpolation_points_inside(**case)
                if r["reproduced"] and bad is None:
                    bad = (k, case, r["observed"])
        c.oblige(f"C01.interpolation_init.points_inside_bounds_at_the_thresholds[{N} cases]", z3.BoolVal(bad is None), kind="bounded", props=["C01"],
                 note=None if bad is None else f"case {bad[0]}: {bad[1]} -> {bad[2]}", replay_inputs=None if bad is None else bad[1])


UNITS.append(ThresholdCases())
