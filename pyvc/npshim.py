"""The `np` shim seen by shadow modules.  Anything not modelled raises Unsupported."""
import numpy as _np
import z3
from .core import SB, Unsupported, cur, tobool
from .values import SF, SI, it, np_max2, np_min2, py_max2, py_min2, fsqrt, ite, PINF, NINF
from . import vecs


def _sym(x):
    return getattr(x, "_vcx_symbolic", False) or isinstance(x, SB)


def _anysym(*xs):
    for x in xs:
        if _sym(x):
            return True
        if isinstance(x, (list, tuple)) and any(_sym(e) for e in x):
            return True
    return False


class _Linalg:
    LinAlgError = _np.linalg.LinAlgError

    @staticmethod
    def norm(v, *a, **k):
        if isinstance(v, (vecs.SV, vecs.Concat)):
            return vecs.norm(v)
        if hasattr(v, "_vcx_norm"):
            return v._vcx_norm()
        if _sym(v):
            raise Unsupported("np.linalg.norm of a symbolic scalar")
        return _np.linalg.norm(v, *a, **k)


class NP:
    """Stand-in for the numpy module."""
    linalg = _Linalg()
    inf = _np.inf
    nan = _np.nan
    pi = _np.pi
    newaxis = _np.newaxis
    ndarray = _np.ndarray
    float64 = _np.float64
    bool_ = _np.bool_
    finfo = staticmethod(_np.finfo)
    printoptions = staticmethod(_np.printoptions)
    format_float_scientific = staticmethod(_np.format_float_scientific)

    def __getattr__(self, k):
        raise Unsupported("np." + k + " is not modelled")

    # ---- scalar / elementwise --------------------------------------------------------------
    def isnan(self, x):
        if isinstance(x, SF):
            return x.isnan()
        if isinstance(x, SI):
            return False
        if isinstance(x, vecs.SV):
            return x.map(lambda e: SF.lift(e).isnan(), "b")
        return _np.isnan(x)

    def isinf(self, x):
        if isinstance(x, SF):
            return x.isinf()
        if isinstance(x, vecs.SV):
            return x.map(lambda e: SF.lift(e).isinf(), "b")
        return _np.isinf(x)

    def isfinite(self, x):
        if isinstance(x, SF):
            return x.isfinite()
        if isinstance(x, SI):
            return True
        if isinstance(x, vecs.SV):
            return x.map(lambda e: SF.lift(e).isfinite(), "b")
        return _np.isfinite(x)

    def sqrt(self, x):
        if isinstance(x, (SF, SI)):
            return fsqrt(x)
        if isinstance(x, vecs.SV):
            return x.map(fsqrt)
        return _np.sqrt(x)

    def abs(self, x):
        if _sym(x):
            return abs(x)
        return _np.abs(x)

    def maximum(self, a, b):
        if isinstance(a, vecs.SV) or isinstance(b, vecs.SV):
            return vecs.zipmap(np_max2, a, b)
        if _sym(a) or _sym(b):
            return np_max2(a, b)
        return _np.maximum(a, b)

    def fmax(self, a, b):
        """numpy.fmax: the maximum ignoring NaN (NaN only if both are NaN)."""
        def f2(x, y):
            x, y = SF.lift(x), SF.lift(y)
            return ite(x.nan, y, ite(y.nan, x, np_max2(x, y)))
        if isinstance(a, vecs.SV) or isinstance(b, vecs.SV):
            return vecs.zipmap(f2, a, b)
        if _sym(a) or _sym(b):
            return f2(a, b)
        return _np.fmax(a, b)

    def fmin(self, a, b):
        def f2(x, y):
            x, y = SF.lift(x), SF.lift(y)
            return ite(x.nan, y, ite(y.nan, x, np_min2(x, y)))
        if isinstance(a, vecs.SV) or isinstance(b, vecs.SV):
            return vecs.zipmap(f2, a, b)
        if _sym(a) or _sym(b):
            return f2(a, b)
        return _np.fmin(a, b)

    def minimum(self, a, b):
        if isinstance(a, vecs.SV) or isinstance(b, vecs.SV):
            return vecs.zipmap(np_min2, a, b)
        if _sym(a) or _sym(b):
            return np_min2(a, b)
        return _np.minimum(a, b)

    def clip(self, x, lo, hi):
        if isinstance(x, vecs.SV) or isinstance(lo, vecs.SV) or isinstance(hi, vecs.SV):
            return vecs.zipmap3(lambda a, l, h: np_min2(np_max2(a, l), h), x, lo, hi)
        if _sym(x) or _sym(lo) or _sym(hi):
            return np_min2(np_max2(x, lo), hi)
        return _np.clip(x, lo, hi)

    # ---- reductions over python lists of scalars ----------------------------------------------
    def min(self, x, **kw):
        if isinstance(x, vecs.SV) and "where" in kw:
            x = x[kw.pop("where")]          # reduction over the selected elements only (needs `initial`, as NumPy requires)
        if isinstance(x, (vecs.SV, vecs.Concat)):
            return vecs.reduce_min(x, nanaware=False, **kw)
        if isinstance(x, (list, tuple)) and _anysym(x):
            f2 = py_min2 if all(isinstance(e, (SI, int)) and not isinstance(e, bool) for e in x) else np_min2
            acc = x[0]
            for e in x[1:]:
                acc = f2(acc, e)
            if "initial" in kw:
                acc = np_min2(acc, kw["initial"])
            return acc
        return _np.min(x, **kw)

    def max(self, x, **kw):
        if isinstance(x, vecs.SV) and "where" in kw:
            x = x[kw.pop("where")]
        if isinstance(x, (vecs.SV, vecs.Concat)):
            return vecs.reduce_max(x, nanaware=False, **kw)
        if isinstance(x, (list, tuple)) and _anysym(x):
            f2 = py_max2 if all(isinstance(e, (SI, int)) and not isinstance(e, bool) for e in x) else np_max2
            acc = x[0]
            for e in x[1:]:
                acc = f2(acc, e)
            if "initial" in kw:
                acc = np_max2(acc, kw["initial"])
            return acc
        return _np.max(x, **kw)

    def nanmin(self, x, **kw):
        if isinstance(x, vecs.SV):
            return vecs.reduce_min(x, nanaware=True, **kw)
        return _np.nanmin(x, **kw)

    def nanmax(self, x, **kw):
        if isinstance(x, vecs.SV):
            return vecs.reduce_max(x, nanaware=True, **kw)
        return _np.nanmax(x, **kw)

    def all(self, x, *a, **kw):
        if isinstance(x, vecs.SV):
            return vecs.reduce_all(x)
        if isinstance(x, (SB, bool)):
            return x
        return _np.all(x, *a, **kw)

    def any(self, x, *a, **kw):
        if isinstance(x, vecs.SV):
            return vecs.reduce_any(x)
        if isinstance(x, (SB, bool)):
            return x
        return _np.any(x, *a, **kw)

    def count_nonzero(self, x, *a, **kw):
        if isinstance(x, (vecs.SV, vecs.Concat)):
            return vecs.count_nonzero(x)
        if x is None:
            return 0
        return _np.count_nonzero(x, *a, **kw)

    def flatnonzero(self, x):
        if isinstance(x, vecs.SV):
            return vecs.FlatNonzero(x)
        return _np.flatnonzero(x)

    def argmax(self, x, *a, **kw):
        if isinstance(x, vecs.SV):
            return vecs.argext(x, True)
        return _np.argmax(x, *a, **kw)

    def argmin(self, x, *a, **kw):
        if isinstance(x, vecs.SV):
            return vecs.argext(x, False)
        return _np.argmin(x, *a, **kw)

    # ---- construction -------------------------------------------------------------------------
    def asarray(self, x, dtype=None):
        if isinstance(x, vecs.SV) or hasattr(x, "_vcx_asarray"):
            return x
        if _sym(x):
            return x
        return _np.asarray(x, dtype=dtype)

    def array(self, x, dtype=None, **kw):
        if isinstance(x, vecs.SV):
            return x.copy()
        if hasattr(x, "_vcx_toarray"):
            return x._vcx_toarray()
        if _sym(x):
            return x
        if isinstance(x, (list, tuple)) and _anysym(x):
            return vecs.from_list(list(x))
        return _np.array(x, dtype=dtype, **kw)

    def copy(self, x):
        if isinstance(x, vecs.SV):
            return x.copy()
        if hasattr(x, "_vcx_copy"):
            return x._vcx_copy()
        return _np.copy(x)

    def empty(self, shape, dtype=float):
        if isinstance(shape, SI):
            return vecs.fresh_vec("empty", shape.t, anyfloat=True)
        return _np.empty(shape, dtype=dtype)

    def zeros(self, shape, dtype=float):
        if isinstance(shape, SI):
            return vecs.const_vec(shape.t, 0.0)
        if isinstance(shape, tuple) and len(shape) == 2 and any(isinstance(d, SI) for d in shape):
            z = SF.lift(0.0)
            return vecs.SM2(it(shape[0]), it(shape[1]), lambda r, q: z)
        return _np.zeros(shape, dtype=dtype)

    def ones(self, shape, dtype=float):
        if isinstance(shape, SI):
            return vecs.const_vec(shape.t, 1.0)
        return _np.ones(shape, dtype=dtype)

    def full(self, shape, val, dtype=None):
        if isinstance(shape, SI):
            return vecs.const_vec(shape.t, val)
        return _np.full(shape, val, dtype=dtype)

    def full_like(self, x, val, **kw):
        if isinstance(x, vecs.SV):
            return vecs.const_vec(x.n, val, like=x)
        return _np.full_like(x, val, **kw)

    def zeros_like(self, x, **kw):
        if isinstance(x, vecs.SV):
            return vecs.const_vec(x.n, 0.0, like=x)
        return _np.zeros_like(x, **kw)

    def ones_like(self, x, **kw):
        if isinstance(x, vecs.SV):
            return vecs.const_vec(x.n, 1.0, like=x)
        return _np.ones_like(x, **kw)

    def concatenate(self, xs, *a, **kw):
        xs = list(xs)
        if any(isinstance(x, (vecs.SV, vecs.Concat)) for x in xs):
            return vecs.Concat(xs)
        return _np.concatenate(xs, *a, **kw)

    def squeeze(self, x):
        if _sym(x) or isinstance(x, vecs.SV):
            return x
        return _np.squeeze(x)

    def atleast_1d(self, x):
        if isinstance(x, vecs.SV):
            return x
        if _sym(x):
            raise Unsupported("np.atleast_1d of a symbolic scalar")
        return _np.atleast_1d(x)

    def arange(self, n):
        if isinstance(n, SI):
            return vecs.SV(n.t, lambda i: SI(i), kind="i", arange=True)
        return _np.arange(n)

    def linspace(self, start, stop, num=50, **kw):
        """num evenly spaced samples over [start, stop]: first = start, last = stop (num >= 2), every sample between the two ends
        (for defined finite ends).  num < 0 is a ValueError in NumPy: side obligation."""
        if not (_sym(start) or _sym(stop) or isinstance(num, SI)):
            return _np.linspace(start, stop, num, **kw)
        if kw:
            raise Unsupported("np.linspace keyword arguments")
        c = cur()
        a, b = SF.lift(start), SF.lift(stop)
        m = num.t if isinstance(num, SI) else z3.IntVal(int(num))
        if c.ghost.get("assume_sample_count_defined"):
            c.assume(m >= 0)
        else:
            c.oblige("linspace.num_nonnegative", m >= 0, kind="side")
        v = vecs.fresh_vec("linspace", m)
        j = z3.Int("vcx_j")
        e = v.at(j)
        lo, hi = z3.If(a.r <= b.r, a.r, b.r), z3.If(a.r <= b.r, b.r, a.r)
        fin = z3.And(z3.Not(a.nan), z3.Not(b.nan), NINF < a.r, a.r < PINF, NINF < b.r, b.r < PINF)
        c.assume(z3.ForAll([j], z3.Implies(z3.And(0 <= j, j < m, fin), z3.And(z3.Not(e.nan), lo <= e.r, e.r <= hi)), patterns=[e.r]))
        base_at = v.at

        def at(i):
            # a sample read at a ground index also gets the instance of the bound fact
            r = base_at(i)
            cc = cur()
            if not cc.qscopes and z3.is_expr(i):
                cc.assume(z3.Implies(z3.And(0 <= i, i < m, fin), z3.And(z3.Not(r.nan), lo <= r.r, r.r <= hi)))
            return r
        v.at = vecs._memo_at(at)
        c.assume(z3.Implies(z3.And(m >= 1, fin), v.at(z3.IntVal(0)).r == a.r))
        c.assume(z3.Implies(z3.And(m >= 2, fin), v.at(m - 1).r == b.r))
        return v

    def broadcast_arrays(self, *xs):
        if any(isinstance(x, vecs.SV) for x in xs):
            return vecs.broadcast(xs)
        return _np.broadcast_arrays(*xs)

    def array_equal(self, a, b):
        if isinstance(a, vecs.SV) or isinstance(b, vecs.SV):
            raise Unsupported("np.array_equal on symbolic vectors")
        return _np.array_equal(a, b)

    def dot(self, a, b):
        if isinstance(a, vecs.SV) or isinstance(b, vecs.SV):
            return vecs.dot(a, b)
        return _np.dot(a, b)

    def sum(self, x, *a, **kw):
        if isinstance(x, vecs.SV):
            return vecs.vsum(x)
        return _np.sum(x, *a, **kw)
