"""NonlinearConstraints.__call__ and ObjectiveFunction.__call__ under contract.

C17.O1 (nonlinear): for every component i of every constraint object with limits (lb_i, ub_i) and value v_i the internal rows are
   eq_i := |ub_i - lb_i| <= tol         -> exactly one equality row  v_i - (lb_i + ub_i)/2
   not eq_i and lb_i > -inf             -> one inequality row  lb_i - v_i
   not eq_i and ub_i < +inf             -> one inequality row  v_i - ub_i
   and nothing else (NaN limits give no row), in the order (lower rows, upper rows) per object, objects in order.
C06.O3: the first call prepares each constraint with exactly one user call at the given point and evaluates nothing else;
        later calls make exactly one user call per constraint object, at the point passed (the rebuilt full point).
"""
import types
import z3
from pyvc.core import cur, SB, PathEnd, Unsupported, tobool
from pyvc.unit import Unit, call_expecting
from pyvc.values import SF, SI, it, I, R, B, PINF, NINF, feq
from pyvc import vecs
from pyvc.seqs import OpaquePoint
from .common import shadow

_SH = {}


def pb_shadow(c_ref):
    if "m" not in _SH:
        _SH["m"] = shadow("cobyqa.problem")
    return _SH["m"]


class PCStub:
    """Assumed contract of scipy's PreparedConstraint/VectorFunction: construction evaluates fun once at x0; fun.fun(x) returns the
    cached value iff x is the last evaluation point, else calls the user function once."""

    def __init__(self, c, log, constraint, x0):
        self.c, self.log = c, log
        k = constraint.vcx_index
        self.m = constraint.vcx_m
        self.bounds = (constraint.lb, constraint.ub)
        self.last_x = None
        self.k = k
        self.vals = []
        self.fun = types.SimpleNamespace(m=SI(self.m), fun=self._fun, f_updated=False, nfev=0)
        self._eval(x0)

    def _eval(self, x):
        self.log.append(("con", self.k, x))
        v = vecs.fresh_vec(f"val{self.k}", self.m)
        self.vals.append(v)
        self.last_x = x
        return v

    def _fun(self, x):
        if x is self.last_x:
            return self.vals[-1]
        return self._eval(x)


def mk_constraint(c, k):
    m = z3.Int(c.fresh_name(f"m{k}"))
    c.assume(m >= 0)
    c.size_hints.append(m)
    lb = vecs.fresh_vec(f"lb{k}", m, owner="user")
    ub = vecs.fresh_vec(f"ub{k}", m, owner="user")
    jac_callable = bool(SB(z3.Bool(c.fresh_name(f"jac_callable{k}"))))
    con = types.SimpleNamespace(fun=lambda x: None, lb=lb, ub=ub, jac=(lambda x: None) if jac_callable else "2-point", hess=None,
                                vcx_index=k, vcx_m=m)
    return con


class NonlinearCall(Unit):
    name = "nlcons.nonlinear_call"
    props = ("C17", "C06", "C11", "C10")
    fmodel = "ORDER"
    functions = [("cobyqa.problem", "NonlinearConstraints.__call__")]
    replay = ("contracts.replays", "nonlinear_call")
    assumptions = [PCStub.__doc__.strip().replace("\n", " ")]
    parallel = True

    def run(self, c):
        m = pb_shadow(c)
        NC = m.NonlinearConstraints
        nobj = c.choose("n_constraint_objects", 3, ["0", "1", "2"])
        cons = [mk_constraint(c, k) for k in range(nobj)]
        log = c.log
        tols = []

        def tol_stub(*arrays):
            # contract of utils.get_arrays_tol: a non-negative, defined tolerance
            t = SF.fresh("tol", finite=True)
            c.assume(t.r >= 0)
            tols.append(t)
            return t
        m.__dict__["get_arrays_tol"] = tol_stub
        m.__dict__["PreparedConstraint"] = lambda con, x0: PCStub(c, log, con, x0)
        nc = NC.__new__(NC)
        nc.__init__(cons, False, False)
        x = OpaquePoint(z3.IntVal(0), tags=("full",))

        class NPc(type(m.__dict__["np"])):
            def array(self, v, dtype=None, **kw):
                if isinstance(v, OpaquePoint):
                    p = OpaquePoint(v.eid, tags=tuple(v.tags) + ("copy",))
                    p.src = v
                    return p
                return super().array(v, dtype=dtype, **kw)
        saved_np = m.__dict__["np"]
        m.__dict__["np"] = NPc()
        try:
            kind, res = call_expecting(c, "C08.nonlinear_call", lambda: nc(x), ())
            n1 = len([e for e in log if e[0] == "con"])
            if nobj:
                self.check_rows(c, nc, cons, res, tols, first=True)
            c.oblige("C06.nonlinear_call.first_call_one_user_call_per_constraint",
                     z3.BoolVal([e[1] for e in log if e[0] == "con"] == list(range(nobj))), props=["C06"],
                     note=f"user constraint calls {[e[1] for e in log if e[0] == 'con']}")
            c.oblige("C06.nonlinear_call.user_called_at_given_point",
                     z3.BoolVal(all(getattr(e[2], "src", e[2]) is x for e in log if e[0] == "con")), props=["C06", "C01"])
            # a later call at another point
            x2 = OpaquePoint(z3.IntVal(1), tags=("full",))
            kind, res2 = call_expecting(c, "C08.nonlinear_call", lambda: nc(x2), ())
            later = [e for e in log if e[0] == "con"][n1:]
            c.oblige("C06.nonlinear_call.later_call_one_user_call_per_constraint",
                     z3.BoolVal([e[1] for e in later] == list(range(nobj)) and all(getattr(e[2], "src", e[2]) is x2 for e in later)), props=["C06"])
            if nobj:
                self.check_rows(c, nc, cons, res2, tols, first=False)
        finally:
            m.__dict__["np"] = saved_np
        c.oblige("C11.nonlinear_call.user_constraint_objects_untouched",
                 z3.BoolVal(all(isinstance(cn.jac, str) or callable(cn.jac) for cn in cons) and all(cn.hess is None for cn in cons)), props=["C11"])

    def check_rows(self, c, nc, cons, res, tols, first):
        cub, ceq = res
        P = ["C17", "C10"]
        tag = "first" if first else "later"
        nobj = len(cons)
        ub_parts = cub.parts if isinstance(cub, vecs.Concat) else []
        eq_parts = ceq.parts if isinstance(ceq, vecs.Concat) else []
        some_ub = tobool(SB(z3.BoolVal(True)))
        # structure: two inequality blocks per object that has inequality components, one equality block per object
        for k, cn in enumerate(cons):
            pc = nc.pcs[k]
            v = pc.vals[-1]
            lb, ub, tol = cn.lb, cn.ub, tols[k]
            i = z3.Int(c.fresh_name("vcx_any"))
            rng = z3.And(0 <= i, i < cn.vcx_m)
            d = abs(ub.at(i) - lb.at(i))
            iseq = tobool(d <= tol)
            # equality rows
            blk = [p for p in eq_parts if getattr(p, "n", None) is not None and p.n.eq(cn.vcx_m)]
            eqb = eq_parts[k] if len(eq_parts) == nobj else None
            if eqb is None:
                # c_eq collapsed to an empty array: then no component of any object is an equality
                c.oblige(f"C17.nonlinear_call.{tag}.no_equality_row_dropped[{k}]", z3.Implies(rng, z3.Not(iseq)), props=P)
            else:
                mid = 0.5 * (ub.at(i) + lb.at(i))
                c.oblige(f"C17.nonlinear_call.{tag}.equality_row[{k}]",
                         z3.Implies(rng, z3.And(eqb.g(i) == iseq, z3.Implies(iseq, feq(eqb.at(i), v.at(i) - mid)))), props=P,
                         note="lb == ub (to rounding) must give exactly one equality at that level")
            # inequality rows: blocks appear only for objects with at least one inequality component
            has_lo = z3.And(z3.Not(iseq), tobool(lb.at(i) > -float("inf")))
            has_hi = z3.And(z3.Not(iseq), tobool(ub.at(i) < float("inf")))
            mine = [p for p in ub_parts if p.ghost.get("obj") == k] if False else None
            blocks = self.blocks_of(ub_parts, cons, nc, k)
            if blocks is None:
                c.oblige(f"C17.nonlinear_call.{tag}.no_inequality_row_dropped[{k}]", z3.Implies(rng, z3.And(z3.Not(has_lo), z3.Not(has_hi))), props=P)
            else:
                lo, hi = blocks
                c.oblige(f"C17.nonlinear_call.{tag}.lower_row[{k}]",
                         z3.Implies(rng, z3.And(lo.g(i) == has_lo, z3.Implies(has_lo, feq(lo.at(i), lb.at(i) - v.at(i))))), props=P,
                         note="a finite lower limit must give exactly the row lb - value")
                c.oblige(f"C17.nonlinear_call.{tag}.upper_row[{k}]",
                         z3.Implies(rng, z3.And(hi.g(i) == has_hi, z3.Implies(has_hi, feq(hi.at(i), v.at(i) - ub.at(i))))), props=P,
                         note="a finite upper limit must give exactly the row value - ub")
        c.oblige(f"C17.nonlinear_call.{tag}.reported_sizes", z3.And(it(nc.m_ub) == it(cub.size), it(nc.m_eq) == it(ceq.size)), props=["C17"])

    def blocks_of(self, ub_parts, cons, nc, k):
        """The (lower, upper) inequality blocks of object k: objects contribute their pair in order, but only if the path took
        the `len(ub_idx)` branch for them; recover the association from the base length term and the order of appearance."""
        pairs = [(ub_parts[j], ub_parts[j + 1]) for j in range(0, len(ub_parts) - 1, 2)]
        # which objects contributed: those for which a pair with the same base length exists, in order
        idx = 0
        for kk, cn in enumerate(cons):
            if idx < len(pairs) and pairs[idx][0].n.eq(cn.vcx_m) and self.took_branch.get(kk, True):
                if kk == k:
                    return pairs[idx]
                idx += 1
            elif kk == k:
                return None
        return None
    took_branch = {}


class ObjectiveCall(Unit):
    name = "problem.objective_call"
    props = ("C05", "C06", "C11", "C02")
    fmodel = "ORDER"
    functions = [("cobyqa.problem", "ObjectiveFunction.__call__")]

    def run(self, c):
        m = pb_shadow(c)
        OF = m.ObjectiveFunction
        of = OF.__new__(OF)
        fun_none = bool(SB(z3.Bool(c.fresh_name("fun_is_none"))))
        calls = []
        fv = SF.fresh("f")

        def fun(x, *args):
            calls.append((x, args))
            return fv
        args = ("a", 2)
        of.__init__(None if fun_none else fun, False, False, *args)
        n0 = SI(z3.Int(c.fresh_name("n_eval0")))
        of._n_eval = n0
        x = OpaquePoint(z3.IntVal(0), tags=("full", "inbox"))

        class NPc(type(m.__dict__["np"])):
            def array(self, v, dtype=None, **kw):
                if isinstance(v, OpaquePoint):
                    p = OpaquePoint(v.eid, tags=tuple(v.tags) + ("copy",))
                    p.src = v
                    return p
                return super().array(v, dtype=dtype, **kw)
        saved = m.__dict__["np"]
        m.__dict__["np"] = NPc()
        try:
            kind, res = call_expecting(c, "C08.objective_call", lambda: of(x), ())
        finally:
            m.__dict__["np"] = saved
        if fun_none:
            c.oblige("C06.objective_call.no_call_without_objective", z3.BoolVal(not calls), props=["C06"])
            c.oblige("C05.objective_call.zero_objective", z3.BoolVal(isinstance(res, float) and res == 0.0), props=["C05", "C06"])
            return
        c.oblige("C06.objective_call.exactly_one_user_call", z3.BoolVal(len(calls) == 1 and calls[0][1] == args), props=["C06", "C05"])
        c.oblige("C11.objective_call.user_gets_a_copy", z3.BoolVal(len(calls) == 1 and getattr(calls[0][0], "src", None) is x), props=["C11", "C06", "C20", "C02"],
                 note="the array handed to the user function must be a fresh copy of the evaluated point (Problem.__call__ hands the same "
                      "array to the constraint functions next: their values, hence maxcv, would be those of a point the objective altered)")
        c.oblige("C05.objective_call.counter", it(of._n_eval) == n0.t + 1, props=["C05"])
        c.oblige("C02.objective_call.value_returned_raw", feq(SF.lift(res), fv), props=["C05", "C06", "C02"])


UNITS = [NonlinearCall(), ObjectiveCall()]


# ---- utils.get_arrays_tol: the tolerance that decides "lb == ub" (C17) is a defined positive number whatever the arrays contain -----
class ArraysTol(Unit):
    """NonlinearConstraints.__call__, LinearConstraints.__init__ and Problem.__init__ compare |ub - lb| with this tolerance to recognise
    equalities and fixed variables; their units assume a defined non-negative tolerance.  Here: for one or two arrays of any length
    with arbitrary contents (NaN, +-inf) the result is not NaN and > 0."""
    name = "utils.get_arrays_tol"
    props = ("C17", "C10", "C02")
    fmodel = "ORDER"
    functions = [("cobyqa.utils.math", "get_arrays_tol")]
    replay = ("contracts.replays", "arrays_tol")
    assumptions = ["that the product 10 EPS max(size, 1) weight does not overflow is not proved (ORDER model)"]

    def run(self, c):
        m = shadow("cobyqa.utils.math") if "math" not in _SH else _SH["math"]
        _SH["math"] = m
        narr = 1 + c.choose("n_arrays", 2, ["1", "2"])
        arrs = []
        for k in range(narr):
            n = z3.Int(c.fresh_name(f"len{k}"))
            c.assume(n >= 0)
            c.size_hints.append(n)
            arrs.append(vecs.fresh_vec(f"a{k}", n, owner="user"))
        kind, res = call_expecting(c, "C08.get_arrays_tol", lambda: m.get_arrays_tol(*arrs), ())
        r = SF.lift(res)
        c.oblige("C17.get_arrays_tol.defined_and_positive", z3.And(z3.Not(r.nan), r.r > 0), props=["C17", "C10", "C02"],
                 note="the tolerance deciding lb == ub is NaN or not positive: equalities / fixed variables are no longer recognised")
        c.oblige("C11.get_arrays_tol.arguments_untouched", z3.BoolVal(all(a.version == 0 for a in arrs)), props=["C17"])
        if narr == 2 and "sweep" not in c.ghost:
            # bounded complement (a refutation of the clause above needs a counter-model the solvers rarely find among the quantified
            # float axioms): the real function on seeded arrays with NaN / +-inf entries at every position, in either argument
            import numpy as np
            from pyvc.transform import ensure_repo_on_path
            from .subsolvers_bounded import rng_for
            from .replays import arrays_tol
            ensure_repo_on_path()
            rng = rng_for(self.name)
            bad = None
            for k in range(500):
                arrs_ = []
                for _ in range(int(rng.integers(1, 3))):
                    a = rng.standard_normal(int(rng.integers(0, 5))) * 10.0 ** rng.integers(-3, 4)
                    for j in range(a.size):
                        u = rng.random()
                        if u < 0.25:
                            a[j] = [np.nan, np.inf, -np.inf][int(rng.integers(0, 3))]
                    arrs_.append(a)
                r = arrays_tol(**{f"a{j}": a.tolist() for j, a in enumerate(arrs_)})
                if r["reproduced"] and bad is None:
                    bad = {f"a{j}": [("nan" if e != e else e) for e in a.tolist()] for j, a in enumerate(arrs_)}
            c.oblige("C17.get_arrays_tol.defined_and_positive[500 cases]", z3.BoolVal(bad is None), kind="bounded", props=["C17", "C10", "C02"],
                     note=None if bad is None else f"{bad}", replay_inputs=bad)


UNITS.append(ArraysTol())
