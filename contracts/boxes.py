"""C01.O1: Problem.build_x / BoundConstraints.project return a point inside the user's bounds, exactly, for every
dimension and every pattern of fixed variables; BoundConstraints.__init__ establishes the invariant they rely on
(NaN bounds neutralised, is_feasible <=> lb <= ub everywhere) without writing into the user's arrays (C11, C17)."""
import types
import z3
from pyvc.core import cur, SB, PathEnd, Unsupported, tobool
from pyvc.unit import Unit, call_expecting
from pyvc.values import SF, SI, it, I, R, B, PINF, NINF, feq
from pyvc import vecs
from .common import shadow

_SH = {}


def pb_shadow():
    if "m" not in _SH:
        class PC:
            def __init__(self, *a, **k):
                pass
        _SH["m"] = shadow("cobyqa.problem", extra={"PreparedConstraint": PC})
    return _SH["m"]


def feasible_spec(xl, xu, n):
    """is_feasible per the statement: consistent bounds (and no lower bound +inf / upper bound -inf)."""
    j = z3.Int("vcx_j")
    return z3.ForAll([j], z3.Implies(z3.And(0 <= j, j < n), z3.And(xl.at(j).r <= xu.at(j).r, xl.at(j).r < PINF, xu.at(j).r > NINF)))


class BoundInit(Unit):
    name = "boxes.bound_constraints_init"
    props = ("C01", "C11", "C17")
    fmodel = "ORDER"
    functions = [("cobyqa.problem", "BoundConstraints.__init__")]

    def run(self, c):
        m = pb_shadow()
        n = z3.Int(c.fresh_name("n"))
        c.assume(n >= 0)
        c.size_hints.append(n)
        lb = vecs.fresh_vec("lb", n, owner="user")
        ub = vecs.fresh_vec("ub", n, owner="user")
        bounds = types.SimpleNamespace(lb=lb, ub=ub)
        BC = m.BoundConstraints
        bc = BC.__new__(BC)
        call_expecting(c, "C08.bound_constraints_init", lambda: bc.__init__(bounds), ())
        xl, xu = bc._xl, bc._xu
        i = z3.Int(c.fresh_name("vcx_any"))
        rng = z3.And(0 <= i, i < n)
        c.oblige("C11.bound_init.copies_not_views", z3.BoolVal(xl is not lb and xu is not ub and xl.owner == "solver"), props=["C11"])
        c.oblige("C17.bound_init.lower", z3.And(xl.n == n, z3.Implies(rng, z3.And(
            z3.Not(xl.at(i).nan), z3.Implies(lb.at(i).nan, xl.at(i).r == NINF), z3.Implies(z3.Not(lb.at(i).nan), xl.at(i).r == lb.at(i).r)))),
            props=["C17", "C01"], note="NaN lower bound means no bound")
        c.oblige("C17.bound_init.upper", z3.And(xu.n == n, z3.Implies(rng, z3.And(
            z3.Not(xu.at(i).nan), z3.Implies(ub.at(i).nan, xu.at(i).r == PINF), z3.Implies(z3.Not(ub.at(i).nan), xu.at(i).r == ub.at(i).r)))),
            props=["C17", "C01"])
        isf = tobool(bc.is_feasible)
        # both directions of is_feasible <=> forall i: xl_i <= xu_i (and xl_i < inf, xu_i > -inf)
        c.oblige("C01.bound_init.feasible_implies_consistent",
                 z3.Implies(z3.And(isf, rng), z3.And(xl.at(i).r <= xu.at(i).r, xl.at(i).r < PINF, xu.at(i).r > NINF)), props=["C01", "C07"])
        c.oblige("C01.bound_init.consistent_implies_feasible", z3.Implies(feasible_spec(xl, xu, n), isf), props=["C01", "C07"])


class BuildX(Unit):
    name = "boxes.build_x"
    props = ("C01", "C11", "C20", "C10")
    fmodel = "ORDER"
    functions = [("cobyqa.problem", "Problem.build_x"), ("cobyqa.problem", "BoundConstraints.project"), ("cobyqa.problem", "Problem.n_orig")]

    def run(self, c):
        m = pb_shadow()
        n = z3.Int(c.fresh_name("n_orig"))
        c.assume(n >= 0)
        c.size_hints.append(n)
        fixed = vecs.fresh_vec("fixed_idx", n, kind="b")
        fm = lambda i: tobool(fixed.at(i))
        nfm = lambda i: z3.Not(tobool(fixed.at(i)))
        xl = vecs.fresh_vec("xl", n, nonan=True)
        xu = vecs.fresh_vec("xu", n, nonan=True)
        BC = m.BoundConstraints
        ob = BC.__new__(BC)
        ob._xl, ob._xu = xl, xu
        isf = SB(z3.Bool(c.fresh_name("is_feasible")))
        ob.is_feasible = isf
        # object invariant of BoundConstraints (proved by boxes.bound_constraints_init)
        c.assume(z3.Implies(isf.t, feasible_spec(xl, xu, n)))
        P = m.Problem
        pb = P.__new__(P)
        pb._fixed_idx = fixed
        fv = vecs.fresh_vec("fixed_val", n)
        fv.guard = fm
        sf_ = vecs.fresh_vec("scaling_factor", n, finite=True)
        ss_ = vecs.fresh_vec("scaling_shift", n, finite=True)
        sf_.guard = nfm
        ss_.guard = nfm
        pb._fixed_val, pb._scaling_factor, pb._scaling_shift = fv, sf_, ss_
        pb._orig_bounds = ob
        # the reduced/scaled bounds of the solver's variables (arbitrary consistent box of the reduced dimension)
        rb = BC.__new__(BC)
        rxl = vecs.fresh_vec("reduced_xl", n, nonan=True)
        rxu = vecs.fresh_vec("reduced_xu", n, nonan=True)
        rxl.guard = nfm
        rxu.guard = nfm
        rb._xl, rb._xu, rb.is_feasible = rxl, rxu, isf
        pb._bounds = rb
        x = vecs.fresh_vec("x", n, finite=True)          # the solver's point in reduced / scaled variables: NaN-free, finite
        x.guard = nfm
        x.owner = "solver"
        j = z3.Int("vcx_j")
        # invariant established by Problem.__init__: the value of a fixed variable is defined and lies in [xl, xu]
        c.assume(z3.ForAll([j], z3.Implies(z3.And(0 <= j, j < n, fm(j)), z3.And(z3.Not(fv.at(j).nan))), patterns=[fv.at(j).r]))
        kind, r = call_expecting(c, "C08.build_x", lambda: pb.build_x(x), ())
        i = z3.Int(c.fresh_name("vcx_any"))
        rng = z3.And(0 <= i, i < n)
        c.oblige("C01.build_x.full_length", z3.And(r.n == n, z3.BoolVal(r.dense())), props=["C01", "C10"])
        ri = r.at(i)
        c.oblige("C01.build_x.inside_bounds",
                 z3.Implies(z3.And(isf.t, rng), z3.And(z3.Not(ri.nan), xl.at(i).r <= ri.r, ri.r <= xu.at(i).r)), props=["C01", "C20"],
                 note="a point handed to the user lies outside [lb, ub]")
        c.oblige("C01.build_x.fixed_variables_held",
                 z3.Implies(z3.And(isf.t, rng, xl.at(i).r == xu.at(i).r), ri.r == xl.at(i).r), props=["C01"])
        c.oblige("C11.build_x.fresh_array", z3.BoolVal(r is not x and r.owner == "solver" and x.version == 0), props=["C11", "C20"],
                 note="the array handed to the user must not alias solver state")
        # C10: the free components are exactly clip(x * factor + shift) and the fixed ones clip(fixed value)
        exp_free = x.at(i) * sf_.at(i) + ss_.at(i)
        from pyvc.values import np_max2, np_min2
        clip = lambda v: np_min2(np_max2(v, xl.at(i)), xu.at(i))
        c.oblige("C10.build_x.free_components_feasible", z3.Implies(z3.And(isf.t, rng, nfm(i)), feq(ri, clip(exp_free))), props=["C10", "C01"])
        c.oblige("C10.build_x.fixed_components_feasible", z3.Implies(z3.And(isf.t, rng, fm(i)), feq(ri, clip(fv.at(i)))), props=["C10", "C01"])
        c.oblige("C10.build_x.free_components_infeasible", z3.Implies(z3.And(z3.Not(isf.t), rng, nfm(i)), feq(ri, exp_free)), props=["C10"])


UNITS = [BoundInit(), BuildX()]
