"""BOUNDED complement of pbcall.problem_call for a FINITE filter_size (C03: "with a finite filter_size the same rule applies to the
retained non-dominated points").  The deductive unit proves ALIGN / SUBSET / BOUND / NOMIX for every filter_size and COVER for the
unbounded filter; which points a *full* filter retains is stated here as a run-time clause on the real Problem: an entry that the
newcomer does not dominate is evicted only if the filter is full afterwards (dominated entries are discarded before the oldest entry
is evicted).  Seeded random sequences of (objective, violation) pairs with many ties, NaN, +-inf; filter_size 1..4."""
import z3
import numpy as np
from pyvc.unit import Unit
from pyvc.transform import ensure_repo_on_path
from .subsolvers_bounded import rng_for


class FiniteFilter(Unit):
    name = "pbcall.finite_filter_bounded"
    props = ("C03",)
    fmodel = "ORDER"
    functions = [("cobyqa.problem", "Problem.__call__")]
    replay = ("contracts.replays", "finite_filter")
    bounded = "native run-time contracts on 1500 seeded sequences (length 3..12) of (objective, violation) pairs, filter_size 1..4"

    def run(self, c):
        import os
        from .replays import finite_filter
        ensure_repo_on_path()
        rng = rng_for(self.name)
        N = 15000 if os.environ.get("VERIF_TIER") == "thorough" else 1500
        bad = None
        vals = [0.0, 1.0, 2.0, 3.0, -1.0, 0.5, np.nan, np.inf, -np.inf]
        for k in range(N):
            L = int(rng.integers(3, 13))
            pf = [0.14] * 6 + [0.06, 0.05, 0.05]
            fs = rng.choice(vals, size=L, p=np.array(pf) / sum(pf))
            ms = rng.choice([0.0, 0.0, 1.0, 2.0, 3.0, 0.5, 4.0, np.nan, -1.0], size=L)
            seq = [[("nan" if a != a else ("inf" if a == np.inf else ("-inf" if a == -np.inf else float(a)))),
                    ("nan" if b != b else float(b))] for a, b in zip(fs, ms)]
            case = dict(seq=seq, filter_size=int(rng.integers(1, 5)))
            r = finite_filter(**case)
            if r["reproduced"] and bad is None:
                bad = (k, case, r)
        c.oblige(f"C03.problem_call.finite_filter_retains_what_the_rule_retains[{N} cases]", z3.BoolVal(bad is None), kind="bounded", props=["C03"],
                 note=None if bad is None else f"case {bad[0]}: {bad[2].get('required')}: {bad[2].get('observed')}"[:1500],
                 replay_inputs=None if bad is None else bad[1])


UNITS = [FiniteFilter()]
