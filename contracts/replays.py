"""z3-free native replays: rebuild the concrete pre-state from a counter-model, run the REAL untransformed
function from $REPO under the repository's interpreter and evaluate the same postcondition natively."""
import math
import numpy as np


def F(x):
    if isinstance(x, str):
        return {"nan": math.nan, "inf": math.inf, "-inf": -math.inf}[x]
    return float(x)


def _tr(inp):
    from cobyqa.framework import TrustRegion
    from cobyqa.settings import DEFAULT_CONSTANTS
    tr = TrustRegion.__new__(TrustRegion)
    tr._constants = {k: (bool(inp[k]) if isinstance(DEFAULT_CONSTANTS[k], bool) else F(inp[k]))
                     for k in DEFAULT_CONSTANTS if k in inp}
    for k, v in DEFAULT_CONSTANTS.items():
        tr._constants.setdefault(k, v)
    tr._radius = F(inp["radius"])
    tr._resolution = F(inp["resolution"])
    return tr


def tr_enhance_resolution(**inp):
    from cobyqa.settings import Options
    tr = _tr(inp)
    rf = F(inp["radius_final"])
    res0 = tr._resolution
    tr.enhance_resolution({Options.RHOEND.value: rf})
    ok = rf <= tr._resolution <= tr._radius and tr._resolution < res0
    return {"reproduced": not ok, "observed": {"resolution": tr._resolution, "radius": tr._radius, "radius_final": rf,
                                               "resolution_before": res0},
            "required": "radius_final <= resolution' <= radius' and resolution' < resolution"}


def tr_update_radius(**inp):
    tr = _tr(inp)
    rf = F(inp["radius_final"])
    s = F(inp.get("step_norm", 0.0))
    tr.update_radius(np.array([s]), F(inp["ratio"]))
    ok = rf <= tr._resolution <= tr._radius
    return {"reproduced": not ok, "observed": {"resolution": tr._resolution, "radius": tr._radius}}


def tr_radius_setter(**inp):
    tr = _tr(inp)
    rf = F(inp["radius_final"])
    if "new_radius" in inp:
        tr.radius = F(inp["new_radius"])
    else:
        tr.radius *= tr._constants["decrease_resolution_factor"]
    ok = rf <= tr._resolution <= tr._radius
    return {"reproduced": not ok, "observed": {"resolution": tr._resolution, "radius": tr._radius}}
