"""C13 (Mode B, bounded): the models are the least-Frobenius-norm interpolants and their views agree.

Real code executed on exact symbolic arrays (pyvc.modeb): build_system, Quadratic._get_model / __init__ / update / __call__ /
grad / hess / hess_prod / curv / shift_x_base and the Models.fun* / cub* / ceq* wrappers.  The specification side (Powell's
KKT matrix W, the value of a quadratic given by (c, g, lambda, E)) is written with plain loops in pyvc.modeb
(kkt_matrix, spec_solve, spec_quadratic) and shares no code with cobyqa.

Relation checked for build_system (its docstring says "W * diag(right_scaling)", the comment in solve_systems says
"diag(left_scaling) * W * diag(right_scaling)"; what the solve needs, and what is checked, is the symmetric scaling):

        a  ==  R W R,      R = diag(right_scaling),  every right_scaling[i] != 0,
        W  =  [[ 0.5 (X^T X)^{o2},  e,  X^T ],
               [ e^T,               0,  0   ],
               [ X,                 0,  0   ]],          X = interpolation.xpt  (n x npt, relative to x_base)

so that  x = R a^{-1} R rhs  (what solve_systems computes, contract SOLVE)  is  W^{-1} rhs, and the unknowns are ordered
(lambda_1..lambda_npt, c, g_1..g_n) as _get_model extracts them.  W (lambda, c, g) = (values, 0, 0) are the KKT conditions of
        min 1/4 ||H||_F^2   s.t.   c + g.x_k + 1/2 x_k^T H x_k = values_k  (k = 1..npt),
whose solution has H = sum_k lambda_k x_k x_k^T, sum lambda_k = 0, sum lambda_k x_k = 0 (cited theorem, not mechanised).

Tolerance tests (np.isclose / np.allclose / abs) have no truth value on a non-constant rational function (Mode B reports an
engine gap); the unit C13.modeb.shift_views.large_length_scale therefore runs update + shift_x_base on CONCRETE rationals at
length scales 2^10 / 2^20, where such tests are decided exactly over QQ and the views must be exactly unchanged by the shift.
"""
from fractions import Fraction

import numpy as np

from pyvc.unit import Unit
from pyvc import modeb as mb
from pyvc.modeb import Cases, FieldCtx, Shadow, arr

THOROUGH = mb.THOROUGH


def gtag(symbolic):
    return "symbolic" if symbolic else "rational"


def npts(n):
    lo, hi = n + 1, (n + 1) * (n + 2) // 2
    if n <= 2:
        return list(range(lo, hi + 1))
    return sorted({lo, 2 * n + 1, hi})


def rep_value(F, q, it, x):
    """Value at the absolute point x of the quadratic REPRESENTED by q's fields, written from the class docstring:
    const + grad.(x-xb) + 1/2 sum_k i_hess_k (xpt_k.(x-xb))^2 + 1/2 (x-xb)^T e_hess (x-xb)   (plain loops)."""
    n, npt = it.xpt.shape
    lam = [F.lift(q._i_hess[k]) for k in range(npt)]
    g = [F.lift(q._grad[t]) for t in range(n)]
    v = mb.spec_quadratic(F, it.xpt, it.x_base, lam, F.lift(q._const), g, x)
    d = [F.lift(x[t]) - F.lift(it.x_base[t]) for t in range(n)]
    half = F.lift(Fraction(1, 2))
    for i in range(n):
        for j in range(n):
            v = v + half * d[i] * F.lift(q._e_hess[i, j]) * d[j]
    return mb.Sc(v, F)


# ---- O1: build_system / _get_model -------------------------------------------------------------------------------
def case_matrix(emit, n, npt):
    """a == R W R with fully symbolic geometry and symbolic SCALE (no solve involved)."""
    tag = f"[n={n},npt={npt},geom=symbolic]"
    F = FieldCtx(mb.geometry_names(n, npt, True))
    sh = Shadow()
    xb, X = mb.geometry(F, "", n, npt, True)
    it = sh.interpolation(xb, X)
    a, rs, _eig = sh.m.build_system(it)
    N = npt + n + 1
    ok, note = (a.shape == (N, N) and rs.shape == (N,)), f"shapes {a.shape} {rs.shape}"
    if ok:
        W = mb.kkt_matrix(F, X)
        r = [F.lift(rs[i]) for i in range(N)]
        for i in range(N):
            if F.is_zero(r[i]):
                ok, note = False, f"right_scaling[{i}] is zero"
        for i in range(N):
            for j in range(N):
                if ok and not F.is_zero(F.lift(a[i, j]) - r[i] * W[i][j] * r[j]):
                    ok, note = False, (f"a[{i},{j}] = {mb.short(F.lift(a[i, j]), 80)} but (R W R)[{i},{j}] = "
                                       f"{mb.short(r[i] * W[i][j] * r[j], 80)}")
    emit("C13.build_system_is_scaled_KKT" + tag, ok, None if ok else note)
    # second call with unchanged points must hand back the same system (cache), a changed point a different one
    a2, rs2, _ = sh.m.build_system(it)
    ok2, note2 = mb.same(F, a2, a)
    if ok2:
        ok2, note2 = mb.same(F, rs2, rs)
    if ok2:
        it.xpt[0, npt - 1] = it.xpt[0, npt - 1] + 1
        a3, rs3, _ = sh.m.build_system(it)
        W3 = mb.kkt_matrix(F, it.xpt)
        r3 = [F.lift(rs3[i]) for i in range(N)]
        for i in range(N):
            for j in range(N):
                if ok2 and not F.is_zero(F.lift(a3[i, j]) - r3[i] * W3[i][j] * r3[j]):
                    ok2, note2 = False, f"the system returned after moving a point in place is not R W R of the new set at [{i},{j}]"
    emit("C13.build_system_is_scaled_KKT.cache_consistent" + tag, ok2, None if ok2 else note2)


def case_get_model(emit, n, npt, symbolic):
    tag = f"[n={n},npt={npt},geom={gtag(symbolic)}]"
    F = FieldCtx(mb.geometry_names(n, npt, symbolic) + mb.names_vec("v", npt))
    sh = Shadow()
    xb, X = mb.geometry(F, f"C13.get_model{tag}", n, npt, symbolic)
    it = sh.interpolation(xb, X)
    vals = F.vec("v", npt)
    c0, g, lam, ill = sh.m.Quadratic._get_model(it, vals)
    ok, note = True, None
    if bool(ill):
        ok, note = False, "ill_conditioned reported True under SOLVE"
    lam_l = [F.lift(lam[k]) for k in range(npt)]
    g_l = [F.lift(g[t]) for t in range(n)]
    if ok and (np.shape(lam) != (npt,) or np.shape(g) != (n,)):
        ok, note = False, f"shapes of (grad, i_hess) = {np.shape(g)}, {np.shape(lam)}"
    if ok:
        s = F.K(0)
        for k in range(npt):
            s = s + lam_l[k]
        if not F.is_zero(s):
            ok, note = False, f"sum(lambda) = {mb.short(s)}"
    for t in range(n):
        if ok:
            s = F.K(0)
            for k in range(npt):
                s = s + lam_l[k] * F.lift(X[t, k])
            if not F.is_zero(s):
                ok, note = False, f"sum_k lambda_k x_k[{t}] = {mb.short(s)}"
    for k in range(npt):
        if ok:
            xk = [F.lift(xb[t]) + F.lift(X[t, k]) for t in range(n)]
            r = mb.spec_quadratic(F, X, xb, lam_l, F.lift(c0), g_l, xk) - F.lift(vals[k])
            if not F.is_zero(r):
                ok, note = False, f"interpolation condition {k}: c + g.x_k + 1/2 sum_j lambda_j (x_j.x_k)^2 - v_k = {mb.short(r)}"
    emit("C13.build_system_is_scaled_KKT.get_model_kkt" + tag, ok, note)
    # the model object built from it: fields are exactly these, Hessian = sum lambda_k x_k x_k^T
    q = sh.m.Quadratic(it, vals, False)
    ok, note = mb.same(F, q._i_hess, lam)
    if ok:
        ok, note = mb.same(F, q._grad, g)
    if ok:
        ok, note = mb.same(F, arr([q._const]), arr([c0]))
    if ok:
        H = [[F.K(0)] * n for _ in range(n)]
        for k in range(npt):
            for i in range(n):
                for j in range(n):
                    H[i][j] = H[i][j] + lam_l[k] * F.lift(X[i, k]) * F.lift(X[j, k])
        ok, note = mb.same(F, q.hess(it), arr([[mb.Sc(H[i][j], F) for j in range(n)] for i in range(n)]))
        note = note and "hess() != sum_k lambda_k x_k x_k^T: " + note
    emit("C13.build_system_is_scaled_KKT.fresh_model_is_least_norm" + tag, ok, note)


# ---- O2: update = symmetric Broyden ----------------------------------------------------------------------------------
def case_update(emit, n, npt, k_new, symbolic, sym_xnew):
    tag = f"[n={n},npt={npt},k_new={k_new},geom={gtag(symbolic)},x_new={'symbolic' if sym_xnew else 'rational'}]"
    names = mb.geometry_names(n, npt, symbolic) + Shadow.quadratic_state_names("M", n, npt) + mb.names_vec("d", npt) \
        + mb.names_vec("x", n) + (mb.names_vec("xn", n) if sym_xnew else [])
    F = FieldCtx(names)
    sh = Shadow()
    label = f"C13.update[n={n},npt={npt},geom={gtag(symbolic)}]"
    xb, X = mb.geometry(F, label, n, npt, symbolic)
    x_new = F.vec("xn", n) if sym_xnew else mb.lift_array(F, mb.rational_vector(label + f"k{k_new}", n))
    x = F.vec("x", n)
    for variant in ("general", "zero_residual"):
        it = sh.interpolation(xb.copy(), X.copy())
        q = sh.quadratic_state(F, "M", n, npt)
        q._grad, q._i_hess, q._e_hess = q._grad.copy(), q._i_hess.copy(), q._e_hess.copy()
        old = q(x, it)
        lam_old, e_old = q._i_hess.copy(), q._e_hess.copy()
        vd = F.vec("d", npt) if variant == "general" else mb.lift_array(F, [0] * npt)
        dir_old = np.copy(it.xpt[:, k_new])
        it.xpt[:, k_new] = x_new - it.x_base
        ill = q.update(it, k_new, dir_old, vd.copy())
        new = q(x, it)
        if variant == "zero_residual":
            ok, note = mb.all_zero(F, new - old)
            note = note and "update with a zero residual changed the model function: " + note
            emit("C13.update_is_symmetric_broyden.zero_residual_keeps_function" + tag, ok and not bool(ill), note)
            continue
        # specification: least-Frobenius-norm quadratic through the residuals on the NEW set
        Xn = it.xpt
        W = mb.kkt_matrix(F, Xn)
        z = mb.spec_solve(F, W, [vd[k] for k in range(npt)] + [0] * (n + 1))
        mu, c_, g_ = z[:npt], z[npt], z[npt + 1:]
        spec = mb.spec_quadratic(F, Xn, it.x_base, mu, c_, g_, x)
        ok, note = mb.all_zero(F, new - old - mb.Sc(spec, F))
        note = note and "new model - old model - least-norm interpolant of the residuals: " + note
        emit("C13.update_is_symmetric_broyden" + tag, ok and not bool(ill), note)
        # bookkeeping: lambda_k x_k x_k^T moved to the explicit part, nothing else touched
        exp_e = e_old + lam_old[k_new] * np.outer(dir_old, dir_old)
        exp_l = lam_old.copy()
        exp_l[k_new] = 0
        exp_l = exp_l + arr([mb.Sc(m, F) for m in mu])
        ok, note = mb.same(F, q._e_hess, exp_e)
        note = note and "explicit Hessian: " + note
        if ok:
            ok, note = mb.same(F, q._i_hess, exp_l)
            note = note and "implicit Hessian: " + note
        emit("C13.update_is_symmetric_broyden.bookkeeping" + tag, ok, note)


# ---- O3: views ----------------------------------------------------------------------------------------------------------
def case_views(emit, n, npt):
    tag = f"[n={n},npt={npt},geom=symbolic]"
    F = FieldCtx(mb.geometry_names(n, npt, True) + Shadow.quadratic_state_names("M", n, npt) + mb.names_vec("x", n)
                 + mb.names_vec("w", n))
    sh = Shadow()
    xb, X = mb.geometry(F, "", n, npt, True)
    it = sh.interpolation(xb, X)
    q = sh.quadratic_state(F, "M", n, npt)
    x, v = F.vec("x", n), F.vec("w", n)
    val = q(x, it)
    ok, note = mb.all_zero(F, val - rep_value(F, q, it, x))
    emit("C13.views_agree.call_matches_representation" + tag, ok, note)
    H = q.hess(it)
    ok, note = mb.same(F, H @ v, q.hess_prod(v, it))
    emit("C13.views_agree.hess_prod" + tag, ok, note)
    ok, note = mb.same(F, arr([v @ H @ v]), arr([q.curv(v, it)]))
    emit("C13.views_agree.curv" + tag, ok, note)
    grad_sym = arr([val.diff(f"x{i}") for i in range(n)])
    gr = q.grad(x, it)
    ok, note = mb.same(F, gr, grad_sym)
    emit("C13.views_agree.grad_is_derivative_of_call" + tag, ok, note)
    hess_sym = arr([[val.diff(f"x{i}").diff(f"x{j}") for j in range(n)] for i in range(n)])
    ok, note = mb.same(F, H, hess_sym)
    if ok:
        ok, note = mb.same(F, H, H.T)
        note = note and "hess() not symmetric: " + note
    emit("C13.views_agree.hess_is_second_derivative_of_call" + tag, ok, note)


def case_wrappers(emit, n, npt, symbolic):
    tag = f"[n={n},npt={npt},geom={gtag(symbolic)}]"
    tags = ["F", "U0", "U1", "Q0", "Q1"]
    names = mb.geometry_names(n, npt, symbolic) + mb.names_vec("x", n) + mb.names_vec("w", n) + mb.names_vec("v", npt)
    for t in tags:
        names += Shadow.quadratic_state_names(t, n, npt)
    F = FieldCtx(names)
    sh = Shadow()
    xb, X = mb.geometry(F, f"C13.wrappers{tag}", n, npt, symbolic)
    it = sh.interpolation(xb, X)
    qs = {t: sh.quadratic_state(F, t, n, npt) for t in tags}
    fun_val = F.vec("v", npt)
    z = mb.lift_array(F, np.zeros((npt, 2), dtype=object))
    M = sh.models(it, fun_val, z, z.copy(), qs["F"], [qs["U0"], qs["U1"]], [qs["Q0"], qs["Q1"]])
    x, v = F.vec("x", n), F.vec("w", n)
    bad = []

    def chk(lab, got, exp_list, shape):
        got = np.asarray(got, dtype=object) if not isinstance(got, np.ndarray) else got
        if got.shape != shape:
            bad.append(f"{lab}: shape {got.shape}, expected {shape}")
            return
        if got.size:
            exp = np.empty(shape, dtype=object)
            for i, e in enumerate(exp_list):
                exp[i] = e
            ok, note = mb.same(F, got, exp)
            if not ok:
                bad.append(f"{lab}: {note}")

    f = qs["F"]
    chk("fun", arr([M.fun(x)]), [f(x, it)], (1,))
    chk("fun_grad", M.fun_grad(x), list(f.grad(x, it)), (n,))
    chk("fun_hess", M.fun_hess(), list(f.hess(it)), (n, n))
    chk("fun_hess_prod", M.fun_hess_prod(v), list(f.hess_prod(v, it)), (n,))
    chk("fun_curv", arr([M.fun_curv(v)]), [f.curv(v, it)], (1,))
    masks = [None, np.array([True, False]), np.array([False, True]), np.array([True, True]), np.array([False, False])]
    for kind, mods in (("cub", [qs["U0"], qs["U1"]]), ("ceq", [qs["Q0"], qs["Q1"]])):
        for mask in masks:
            sel = mods if mask is None else [m_ for m_, b in zip(mods, mask) if b]
            m = len(sel)
            ml = "None" if mask is None else "".join("T" if b else "F" for b in mask)
            args = () if mask is None else (mask,)
            chk(f"{kind}(mask={ml})", getattr(M, kind)(x, *args), [s(x, it) for s in sel], (m,))
            chk(f"{kind}_grad(mask={ml})", getattr(M, kind + "_grad")(x, *args), [s.grad(x, it) for s in sel], (m, n))
            chk(f"{kind}_hess(mask={ml})", getattr(M, kind + "_hess")(*args), [s.hess(it) for s in sel], (m, n, n))
            chk(f"{kind}_hess_prod(mask={ml})", getattr(M, kind + "_hess_prod")(v, *args), [s.hess_prod(v, it) for s in sel], (m, n))
            chk(f"{kind}_curv(mask={ml})", getattr(M, kind + "_curv")(v, *args), [s.curv(v, it) for s in sel], (m,))
    emit("C13.views_agree.models_wrappers_forward" + tag, not bad, "; ".join(bad)[:600] or None)
    # fun_alt_grad: gradient of the least-Frobenius-norm interpolant of the recorded objective values (independent spec)
    W = mb.kkt_matrix(F, X)
    zz = mb.spec_solve(F, W, [fun_val[k] for k in range(npt)] + [0] * (n + 1))
    spec = mb.Sc(mb.spec_quadratic(F, X, xb, zz[:npt], zz[npt], zz[npt + 1:], x), F)
    ok, note = mb.same(F, M.fun_alt_grad(x), arr([spec.diff(f"x{i}") for i in range(n)]))
    emit("C13.views_agree.fun_alt_grad_is_least_norm_gradient" + tag, ok, note)


def case_shift(emit, n, npt):
    tag = f"[n={n},npt={npt},geom=symbolic]"
    F = FieldCtx(mb.geometry_names(n, npt, True) + Shadow.quadratic_state_names("M", n, npt) + mb.names_vec("x", n)
                 + mb.names_vec("nb", n))
    sh = Shadow()
    xb, X = mb.geometry(F, "", n, npt, True)
    it = sh.interpolation(xb.copy(), X.copy())
    q = sh.quadratic_state(F, "M", n, npt)
    x, nb = F.vec("x", n), F.vec("nb", n)
    before = (q(x, it), q.grad(x, it), q.hess(it))
    lam = q._i_hess.copy()
    q.shift_x_base(it, nb.copy())
    # the caller's part (Models.shift_x_base): same absolute points, new base
    ok0, note0 = mb.same(F, it.x_base, xb)
    if ok0:
        ok0, note0 = mb.same(F, it.xpt, X)
    it2 = sh.interpolation(nb.copy(), X - (nb - xb)[:, np.newaxis])
    after = (q(x, it2), q.grad(x, it2), q.hess(it2))
    for lab, b, a_ in zip(("call", "grad", "hess"), before, after):
        ok, note = mb.same(F, arr([a_]) if lab == "call" else a_, arr([b]) if lab == "call" else b)
        emit(f"C13.shift_preserves_views.{lab}" + tag, ok, note)
    ok, note = mb.same(F, q._i_hess, lam)
    note = note and "implicit Hessian coefficients changed by the shift: " + note
    if ok and not ok0:
        ok, note = False, "Quadratic.shift_x_base modified the interpolation set it was given: " + note0
    emit("C13.shift_preserves_views.frame" + tag, ok, note)


# ---- O3 at a large length scale: concrete rationals (the only setting in which a tolerance test has a truth value) ----------
def case_large_scale(emit, n, npt, log2_scale, n_updates):
    """CONCRETE-RATIONAL scenario "large length scale": all displacements are 2**log2_scale times small generic rationals, the
    function values are generic rationals of order one.  Fresh model (real __init__), n_updates ordinary updates (real update;
    an implicit weight of size ~ scale**-4 has then been forwarded, so the implicit weights no longer sum to zero), then the
    real shift_x_base to another point.  The five views at rational probe points / directions must be EXACTLY the ones of the
    same quadratic before the shift."""
    tag = f"[n={n},npt={npt},scale=2^{log2_scale},updates={n_updates},concrete_rational]"
    label = f"C13.large_scale{tag}"
    S = 2 ** log2_scale
    F = FieldCtx([])
    sh = Shadow()
    xb_q, X_q = mb.rational_geometry(label, n, npt)                   # poised; poisedness is invariant under scaling
    xb = mb.lift_array(F, [S * t for t in xb_q])
    X = mb.lift_array(F, [[S * t for t in r] for r in X_q])
    rng = mb.rng_for("vals:" + label)
    it = sh.interpolation(xb.copy(), X.copy())
    vals = [mb.rand_q(rng) for _ in range(npt)]
    q = sh.m.Quadratic(it, mb.lift_array(F, list(vals)), False)
    for u in range(n_updates):
        k_new = (0, npt - 1)[u % 2]
        if mb.all_zero(F, q._i_hess[k_new])[0]:
            raise mb.Unsupported(f"large-length-scale scenario vacuous: implicit weight {k_new} is zero before update {u}")
        x_new = mb.lift_array(F, mb.rational_new_point(label + f"u{u}", it.x_base, it.xpt, k_new, scale=S))
        vd = mb.lift_array(F, [0] * npt)
        vals[k_new] = mb.rand_q(rng)
        vd[k_new] = vals[k_new] - q(x_new, it)                        # new value of order one, generic residual
        dir_old = np.copy(it.xpt[:, k_new])
        it.xpt[:, k_new] = x_new - it.x_base
        ill = q.update(it, k_new, dir_old, vd)
        if bool(ill):
            raise mb.Unsupported("large-length-scale scenario: ill_conditioned reported True under SOLVE")
    # the updated model interpolates every recorded value at this scale too (the weight of the replaced point, of size ~ scale**-4,
    # must have been forwarded to the explicit Hessian however small it is)
    ok_i, note_i = mb.same(F, arr([q(it.point(k), it) for k in range(npt)]), mb.lift_array(F, list(vals)))
    emit("C13.update_interpolates.large_length_scale" + tag, ok_i,
         note_i and "model value - recorded value at the interpolation points after the updates: " + note_i)
    s = F.zero
    for k in range(npt):
        s = s + q._i_hess[k]
    sq = mb.const_of(F, F.lift(s))
    if sq is None or sq == 0 or abs(sq) >= mb.ATOL_DEFAULT:
        raise mb.Unsupported(f"large-length-scale scenario not in the intended regime: sum of the implicit weights = {s} "
                             f"(must be a non-zero rational below 1e-8 in modulus)")
    nb = xb + mb.lift_array(F, [S * t for t in mb.rational_vector(label + "newbase", n)])
    probes = [nb.copy(), xb.copy(), it.point(1)] \
        + [xb + mb.lift_array(F, [S * t for t in mb.rational_vector(label + f"probe{j}", n)]) for j in range(2)] \
        + [nb + mb.lift_array(F, mb.rational_vector(label + "near", n))]
    dirs = [mb.lift_array(F, mb.rational_vector(label + f"dir{j}", n)) for j in range(2)] \
        + [mb.lift_array(F, [S * t for t in mb.rational_vector(label + "bigdir", n)])]

    def views(itp):
        return {"call": arr([q(x, itp) for x in probes]), "grad": arr([list(q.grad(x, itp)) for x in probes]),
                "hess": q.hess(itp), "hess_prod": arr([list(q.hess_prod(v, itp)) for v in dirs]),
                "curv": arr([q.curv(v, itp) for v in dirs])}
    before = views(it)
    lam = q._i_hess.copy()
    xb0, X0 = it.x_base.copy(), it.xpt.copy()
    q.shift_x_base(it, nb.copy())
    ok0, note0 = mb.same(F, it.x_base, xb0)
    if ok0:
        ok0, note0 = mb.same(F, it.xpt, X0)
    it2 = sh.interpolation(nb.copy(), X0 - (nb - xb0)[:, np.newaxis])   # the caller's part: same absolute points, new base
    after = views(it2)
    regime = f" [sum of the implicit weights before the shift = {mb.short(s, 60)}, non-zero and below 1e-8]"
    for lab in ("call", "grad", "hess", "hess_prod", "curv"):
        ok, note = mb.same(F, after[lab], before[lab])
        note = note and f"{lab} after the shift - {lab} before the shift (rows = probe points / directions): " + note + regime
        emit(f"C13.shift_preserves_views.large_length_scale.{lab}" + tag, ok, note)
    ok, note = mb.same(F, q._i_hess, lam)
    note = note and "implicit Hessian coefficients changed by the shift: " + note
    if ok and not ok0:
        ok, note = False, "Quadratic.shift_x_base modified the interpolation set it was given: " + note0
    emit("C13.shift_preserves_views.large_length_scale.frame" + tag, ok, note)


# ---- units -----------------------------------------------------------------------------------------------------------------
class _ModeB(Unit):
    props = ("C13",)
    fmodel = "REAL"
    assumptions = list(mb.MODEB_ASSUMPTIONS) + [mb.ASSUME_KKT]
    timeout_ms = 5000


class C13Matrix(_ModeB):
    name = "C13.modeb.build_system"
    functions = [("cobyqa.models", "build_system")]
    assumptions = [mb.ASSUME_REAL, mb.ASSUME_SCALE]
    bounded = ("exact symbolic execution of the real build_system with FULLY SYMBOLIC points and symbolic scale factor; "
               "n=1 (npt 2,3), n=2 (npt 3..6), n=3 (npt 4,7,10), n=4 (npt 5,9,15); entrywise a == R W R with W written from "
               "Powell's formulation; cache hit / invalidation after an in-place change of a point")

    def run(self, c):
        cs = Cases(c, self)
        for n in (1, 2, 3, 4):
            for p in npts(n):
                cs.run(f"C13.matrix[n={n},npt={p}]", lambda e, n=n, p=p: case_matrix(e, n, p), 20, n <= 2)


class C13GetModel(_ModeB):
    name = "C13.modeb.get_model_kkt"
    functions = [("cobyqa.models", "build_system"), ("cobyqa.models", "Quadratic._get_model"),
                 ("cobyqa.models", "Quadratic.__init__"), ("cobyqa.models", "Quadratic.hess")]
    bounded = ("exact symbolic execution, function values symbolic; FULLY SYMBOLIC geometry for n=1 (npt 2,3) and n=2 (npt 3); "
               "seeded generic rational geometry (VERIF_SEED) for n=2 (npt 3..6), n=3 (npt 4,7,10), n=4 (npt 5,9,15); KKT "
               "conditions (interpolation, sum lambda = 0, sum lambda_k x_k = 0, H = sum lambda_k x_k x_k^T) evaluated with "
               "plain-loop specification code")

    def run(self, c):
        cs = Cases(c, self)
        plan = [(1, 2, True), (1, 3, True), (2, 3, True)] + [(n, p, False) for n in (2, 3, 4) for p in npts(n)]
        for n, p, sym in plan:
            cs.run(f"C13.get_model[n={n},npt={p},{gtag(sym)}]", lambda e, n=n, p=p, sym=sym: case_get_model(e, n, p, sym), 20,
                   n <= 2)


class _C13Update(_ModeB):
    functions = [("cobyqa.models", "build_system"), ("cobyqa.models", "Quadratic._get_model"),
                 ("cobyqa.models", "Quadratic.update"), ("cobyqa.models", "Quadratic.__call__")]
    plan = ()

    def run(self, c):
        cs = Cases(c, self)
        for n, p, ks, sym, symx, req in self.plan:
            for k in ks:
                cs.run(f"C13.update[n={n},npt={p},k_new={k},{gtag(sym)}]",
                       lambda e, n=n, p=p, k=k, sym=sym, symx=symx: case_update(e, n, p, k, sym, symx), 25, req)


UPD = ("exact symbolic execution of the real Quadratic.update on a model in an ARBITRARY symbolic state (constant, gradient, "
       "implicit and explicit Hessian all symbols), residual vector values_diff fully symbolic (all npt entries), probe point "
       "symbolic; the specification interpolant is obtained by an independent exact solve of Powell's KKT system; ")


class C13UpdateSmall(_C13Update):
    name = "C13.modeb.update.n12"
    bounded = (UPD + "n=1 (npt 2,3; every k_new) with FULLY SYMBOLIC geometry and x_new; n=2 (npt 3..6; every k_new) with seeded "
               "generic rational geometry and SYMBOLIC x_new")
    plan = [(1, 2, range(2), True, True, True), (1, 3, range(3), True, True, True)] \
        + [(2, p, range(p), False, True, True) for p in npts(2)]


class C13UpdateN3(_C13Update):
    name = "C13.modeb.update.n3"
    bounded = (UPD + "n=3, seeded generic rational geometry: npt=4 (every k_new, SYMBOLIC x_new), npt=7 (k_new 0,3,6 with SYMBOLIC "
               "x_new; k_new 1,2,4,5 with generic rational x_new, symbolic in the thorough tier)")
    plan = [(3, 4, range(4), False, True, True), (3, 7, [0, 3, 6], False, True, False),
            (3, 7, [1, 2, 4, 5], False, THOROUGH, False)]


class C13UpdateN3Big(_C13Update):
    name = "C13.modeb.update.n3.npt10"
    bounded = (UPD + "n=3, npt=10, seeded generic rational geometry: k_new 0 and 9 with SYMBOLIC x_new, k_new 1..8 with generic "
               "rational x_new (thorough tier: symbolic)")
    plan = [(3, 10, [0, 9], False, True, False), (3, 10, range(1, 9), False, THOROUGH, False)]


class C13Views(_ModeB):
    name = "C13.modeb.views"
    functions = [("cobyqa.models", "Quadratic.__call__"), ("cobyqa.models", "Quadratic.grad"), ("cobyqa.models", "Quadratic.hess"),
                 ("cobyqa.models", "Quadratic.hess_prod"), ("cobyqa.models", "Quadratic.curv")]
    assumptions = [mb.ASSUME_REAL]
    bounded = ("exact symbolic execution of the five views on a model in an arbitrary symbolic state, FULLY SYMBOLIC geometry, "
               "symbolic point x and direction v: n=1 (npt 2,3), n=2 (npt 3..6), n=3 (npt 4,7,10), n=4 (npt 5,9); derivatives of "
               "__call__ taken symbolically")

    def run(self, c):
        cs = Cases(c, self)
        plan = [(n, p) for n in (1, 2, 3) for p in npts(n)] + [(4, 5), (4, 9)] + ([(4, 15), (5, 11)] if THOROUGH else [])
        for n, p in plan:
            cs.run(f"C13.views[n={n},npt={p}]", lambda e, n=n, p=p: case_views(e, n, p), 20, n <= 2)


class C13Wrappers(_ModeB):
    name = "C13.modeb.wrappers"
    functions = [("cobyqa.models", f"Models.{k}{s}") for k in ("fun", "cub", "ceq") for s in ("", "_grad", "_hess", "_hess_prod", "_curv")] \
        + [("cobyqa.models", "Models.fun_alt_grad"), ("cobyqa.models", "Models._get_cub"), ("cobyqa.models", "Models._get_ceq")]
    bounded = ("exact symbolic execution of the 15 Models wrappers + fun_alt_grad with 1 objective, 2 inequality and 2 equality "
               "models in pairwise different arbitrary symbolic states, masks None/TF/FT/TT/FF, result shapes and entries "
               "compared with the selected Quadratic's own methods; fun_alt_grad compared with the gradient of the independently "
               "solved least-norm interpolant; (n,npt) = (1,3), (2,3) with FULLY SYMBOLIC geometry, (2,5), (3,7) with seeded "
               "generic rational geometry")

    def run(self, c):
        cs = Cases(c, self)
        for n, p, sym in ((1, 3, True), (2, 3, True), (2, 5, False), (3, 7, False)):
            cs.run(f"C13.wrappers[n={n},npt={p},{gtag(sym)}]", lambda e, n=n, p=p, sym=sym: case_wrappers(e, n, p, sym), 25, n <= 2)


class C13Shift(_ModeB):
    name = "C13.modeb.shift_views"
    functions = [("cobyqa.models", "Quadratic.shift_x_base"), ("cobyqa.models", "Quadratic.__call__"),
                 ("cobyqa.models", "Quadratic.grad"), ("cobyqa.models", "Quadratic.hess")]
    assumptions = [mb.ASSUME_REAL]
    bounded = ("exact symbolic execution of the real Quadratic.shift_x_base on a model in an arbitrary symbolic state, FULLY "
               "SYMBOLIC geometry, symbolic new base point and probe point: n=1 (npt 2,3), n=2 (npt 3..6), n=3 (npt 4,7,10), "
               "n=4 (npt 5,9)")

    def run(self, c):
        cs = Cases(c, self)
        plan = [(n, p) for n in (1, 2, 3) for p in npts(n)] + [(4, 5), (4, 9)] + ([(4, 15)] if THOROUGH else [])
        for n, p in plan:
            cs.run(f"C13.shift[n={n},npt={p}]", lambda e, n=n, p=p: case_shift(e, n, p), 20, n <= 2)


class C13ShiftLargeScale(_ModeB):
    """shift_x_base must keep the function also when the implicit weights are tiny (large length scale): the midpoint term
    0.5 * sum(i_hess) * shift may not be dropped on the grounds that sum(i_hess) is "close to zero"."""
    name = "C13.modeb.shift_views.large_length_scale"
    functions = [("cobyqa.models", "Quadratic.shift_x_base"), ("cobyqa.models", "Quadratic.update"),
                 ("cobyqa.models", "Quadratic.__init__"), ("cobyqa.models", "Quadratic._get_model"), ("cobyqa.models", "build_system"),
                 ("cobyqa.models", "Quadratic.__call__"), ("cobyqa.models", "Quadratic.grad"), ("cobyqa.models", "Quadratic.hess"),
                 ("cobyqa.models", "Quadratic.hess_prod"), ("cobyqa.models", "Quadratic.curv")]
    bounded = ("exact execution on CONCRETE RATIONALS (no symbol except the scale factor of build_system, which cancels), so "
               "that tolerance tests such as np.isclose have an exact truth value (decided over QQ, rtol=1/10^5, atol=1/10^8): "
               "seeded generic poised rational geometry (VERIF_SEED) with all displacements scaled by 2^10 (n=2, npt=5 and n=3, "
               "npt=7) or 2^20 (n=2, npt=5), generic rational function values of order one; fresh model by the real __init__, "
               "then 1 or 2 ordinary updates (generic rational new points at the same scale keeping the set poised, generic new "
               "values), after which the sum of the implicit weights is non-zero and below 1e-8 in modulus (checked), then the "
               "real shift_x_base to a generic rational point; value and gradient at 6 rational probe points (new base, old "
               "base, an interpolation point, two generic far points, one point near the new base), Hessian, hess_prod and curv "
               "along 3 rational directions compared with the same views before the shift - exact equality of rationals")
    # (n, npt, log2 of the length scale, number of ordinary updates before the shift, required)
    plan = [(2, 5, 10, 1, True), (2, 5, 10, 2, True), (3, 7, 10, 1, True), (3, 7, 10, 2, True), (2, 5, 20, 1, True), (2, 5, 20, 2, True)]

    def run(self, c):
        cs = Cases(c, self)
        for n, p, ls, nu, req in self.plan:
            cs.run(f"C13.large_scale[n={n},npt={p},scale=2^{ls},updates={nu}]",
                   lambda e, n=n, p=p, ls=ls, nu=nu: case_large_scale(e, n, p, ls, nu), 20, req)


UNITS = [C13Matrix(), C13GetModel(), C13UpdateSmall(), C13UpdateN3(), C13UpdateN3Big(), C13Views(), C13Wrappers(), C13Shift(),
         C13ShiftLargeScale()]
