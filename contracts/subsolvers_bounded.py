"""BOUNDED stand-ins for the numerical loops of the five subproblem solvers (C15 admissible steps, C16 never worse).

The truncated-conjugate-gradient loops (projections through QR factors, rotations, active-set updates) are outside the reach of the
unbounded prover within this effort; as the brief allows, the real functions are run natively on seeded random inputs and the clauses
of C15/C16 are evaluated as run-time contracts.  These checks are labelled bounded and never counted as proved.
Bound: VERIF_SEED-seeded cases (quick 400 / thorough 6000 per solver), n in 1..6, data magnitudes over 12 decades, and the
degeneracies listed in the property (zero gradient, bounds active at the origin, infinite bounds, redundant / rank-deficient
constraints, indefinite and zero Hessians, tiny to huge radii, improve_tcg on/off)."""
import os
import z3
import numpy as np
from pyvc.unit import Unit
from pyvc.transform import ensure_repo_on_path


def rng_for(name):
    seed = int(os.environ.get("VERIF_SEED", "0") or 0)
    return np.random.default_rng([seed, sum(map(ord, name))])


def ncases():
    return 30000 if os.environ.get("VERIF_TIER") == "thorough" else 3000


def gen_int(rng, with_constraints):
    """Small-integer instances: exact ties, active constraints hit at non-zero steps, rank deficiency are frequent here."""
    n = int(rng.integers(2, 5))
    grad = rng.integers(-4, 5, n).astype(float)
    A = rng.integers(-2, 3, (n, n)).astype(float)
    H = [np.zeros((n, n)), A + A.T, A @ A.T, -(A @ A.T)][int(rng.integers(0, 4))]
    xl = -rng.integers(0, 4, n).astype(float)
    xu = rng.integers(0, 4, n).astype(float)
    xl[rng.random(n) < 0.3] = -np.inf
    xu[rng.random(n) < 0.3] = np.inf
    d = dict(n=n, grad=grad, H=H, xl=xl, xu=xu, delta=float(rng.integers(1, 4)), improve_tcg=bool(rng.random() < 0.8))
    if with_constraints:
        mub, meq = int(rng.integers(0, 4)), int(rng.integers(0, 2))
        d.update(aub=rng.integers(-2, 3, (mub, n)).astype(float), bub=rng.integers(0, 4, mub).astype(float),
                 aeq=rng.integers(-2, 3, (meq, n)).astype(float), beq=rng.integers(-2, 3, meq).astype(float))
    return d


def gen_boundary(rng, with_constraints):
    """Instances built to reach the boundary-improvement phase: directions of negative or zero curvature make the truncated CG end
    on the trust-region boundary without touching a bound, and the bounds are lopsided (one side within a fraction of the radius,
    the other far away) so that the following rotations are limited now by a lower, now by an upper bound."""
    n = int(rng.integers(2, 5))
    delta = float(10.0 ** rng.uniform(-2, 2))
    grad = rng.standard_normal(n) * 10.0 ** rng.uniform(-1, 1)
    grad[rng.random(n) < 0.3] *= 0.1
    Q, _ = np.linalg.qr(rng.standard_normal((n, n)))
    ev = rng.standard_normal(n) * 2.0
    ev[int(rng.integers(0, n))] = -abs(rng.standard_normal()) * 2.0 - 0.1
    H = np.diag(ev) if rng.random() < 0.5 else (Q * ev) @ Q.T
    near = rng.uniform(0.1, 1.2, n) * delta
    far = rng.uniform(1.5, 4.0, n) * delta
    up = rng.random(n) < 0.5
    xl = -np.where(up, far, near)
    xu = np.where(up, near, far)
    both_far = rng.random(n) < 0.3
    xl[both_far], xu[both_far] = -far[both_far], far[both_far]
    d = dict(n=n, grad=grad, H=H, xl=xl, xu=xu, delta=delta, improve_tcg=True)
    if with_constraints:
        mub, meq = int(rng.integers(0, 3)), int(rng.integers(0, 2))
        aub = rng.standard_normal((mub, n))
        d.update(aub=aub, bub=np.abs(rng.standard_normal(mub)) * delta * rng.uniform(0.1, 2.0), aeq=rng.standard_normal((meq, n)),
                 beq=rng.standard_normal(meq))
    return d


def gen_tie(rng, with_constraints):
    """Exact ties: integer data built on Pythagorean triples so that the first truncated-CG move (non-positive curvature along the
    gradient) reaches the trust-region boundary and a simple bound at exactly the same step length; linear inequalities hold with
    some slack at that point and limit the following rotation."""
    a, b, cc = [(3, 4, 5), (6, 8, 10), (5, 12, 13), (8, 15, 17)][int(rng.integers(0, 4))]
    n = int(rng.integers(3, 5))
    perm = rng.permutation(n)
    sg = rng.choice([-1.0, 1.0], size=2)
    s1 = np.zeros(n)
    s1[perm[0]], s1[perm[1]] = sg[0] * a, sg[1] * b       # the point reached: |s1| = cc
    grad = -s1.copy()
    for _ in range(20):
        A = rng.integers(-5, 6, (n, n)).astype(float)
        H = np.triu(A) + np.triu(A, 1).T
        if s1 @ H @ s1 <= 0:
            break
    else:
        H = np.zeros((n, n))
    xl, xu = np.full(n, -np.inf), np.full(n, np.inf)
    i0 = perm[int(rng.integers(0, 2))]
    if s1[i0] > 0:
        xu[i0] = s1[i0]
    else:
        xl[i0] = s1[i0]
    d = dict(n=n, grad=grad, H=H, xl=xl, xu=xu, delta=float(cc), improve_tcg=True)
    if with_constraints:
        mub = int(rng.integers(1, 3))
        aub = rng.integers(-3, 4, (mub, n)).astype(float)
        bub = np.maximum(aub @ s1, 0.0) + rng.integers(1, 6, mub).astype(float)
        d.update(aub=aub, bub=bub, aeq=np.zeros((0, n)), beq=np.zeros(0))
    return d


def gen_tiny(rng, with_constraints):
    """Badly scaled data: tiny gradients / Hessians (objective values of the order of 1e-16) with ordinary bounds and radius."""
    d = gen_boundary(rng, with_constraints)
    f = 10.0 ** rng.uniform(-10, -6)
    d["grad"] = d["grad"] * f
    d["H"] = d["H"] * f * 10.0 ** rng.uniform(-2, 2)
    return d


def gen(rng, with_constraints):
    u = rng.random()
    if u < 0.03:
        return gen_tiny(rng, with_constraints)
    if u < 0.13:
        return gen_tie(rng, with_constraints)
    if u < 0.3:
        return gen_boundary(rng, with_constraints)
    if u < 0.65:
        return gen_int(rng, with_constraints)
    n = int(rng.integers(1, 7))
    mag = 10.0 ** rng.uniform(-6, 6)
    grad = rng.standard_normal(n) * mag * (rng.random() > 0.08)
    kind = rng.integers(0, 4)
    if kind == 0:
        H = np.zeros((n, n))
    else:
        A = rng.standard_normal((n, n))
        H = (A + A.T) * mag if kind == 1 else (A @ A.T) * mag if kind == 2 else -(A @ A.T) * mag
    xl = -np.abs(rng.standard_normal(n)) * 10.0 ** rng.uniform(-3, 3)
    xu = np.abs(rng.standard_normal(n)) * 10.0 ** rng.uniform(-3, 3)
    xl[rng.random(n) < 0.2] = 0.0          # bounds active at the origin
    xu[rng.random(n) < 0.2] = 0.0
    xl[rng.random(n) < 0.2] = -np.inf
    xu[rng.random(n) < 0.2] = np.inf
    delta = float(10.0 ** rng.uniform(-6, 6))
    d = dict(n=n, grad=grad, H=H, xl=xl, xu=xu, delta=delta, improve_tcg=bool(rng.random() < 0.7))
    if with_constraints:
        mub, meq = int(rng.integers(0, 4)), int(rng.integers(0, 3))
        aub = rng.standard_normal((mub, n))
        if mub >= 2 and rng.random() < 0.4:
            aub[1] = aub[0] * rng.uniform(0.5, 2)          # redundant rows
        aeq = rng.standard_normal((meq, n))
        if meq >= 2 and rng.random() < 0.4:
            aeq[1] = aeq[0]
        bub = np.abs(rng.standard_normal(mub)) * 10.0 ** rng.uniform(-3, 3)
        bub[rng.random(mub) < 0.3] = 0.0
        if mub and rng.random() < 0.15:
            aub[int(rng.integers(0, mub))] = 0.0            # a row that cannot move (e.g. only fixed variables): 0 * x <= b
        d.update(aub=aub, bub=bub, aeq=aeq, beq=rng.standard_normal(meq))
    return d


from .subsolver_clauses import tolstep, in_bounds, CLAUSES  # noqa: E402  (z3-free: shared with the native replay)


class Bounded(Unit):
    fmodel = "ORDER"
    props = ("C15", "C16", "C01", "C08")     # C01's step units assume "the subsolver's step is inside the bounds it was given"
    solver = None
    replay = ("contracts.replays", "subsolver_case")

    @property
    def bounded(self):
        return f"native run-time contracts on {ncases()} seeded random cases (n in 1..6, 12 decades, degeneracies of the property)"

    def case(self, rng):
        raise NotImplementedError

    def run(self, c):
        ensure_repo_on_path()
        rng = rng_for(self.name)
        fails, seen = {}, []
        N = ncases()
        with np.errstate(all="ignore"):
            for k in range(N):
                d = self.case(rng)
                exc_nm = f"C15.{self.solver}.returns_without_exception"
                try:
                    res = list(CLAUSES[self.solver](d)) + [(exc_nm, True)]
                except Exception as e:  # noqa: an exception leaving a subproblem solver on admissible data escapes from minimize (C08)
                    res = [(exc_nm, False)]
                    d = dict(d, exception=repr(e))
                for nm, ok in res:
                    if nm not in seen:
                        seen.append(nm)
                    if not ok and nm not in fails:
                        fails[nm] = (k, {kk: (v.tolist() if isinstance(v, np.ndarray) else v) for kk, v in d.items()})
        for nm in sorted(seen):
            props = [nm[:3]] + (["C01"] if nm.endswith("step_within_bounds") else []) + (["C08"] if nm.endswith("without_exception") else [])
            bad = fails.get(nm)
            c.oblige(f"{nm}[{N} cases]", z3.BoolVal(bad is None), kind="bounded", props=props,
                     note=None if bad is None else f"case {bad[0]}: {bad[1]}",
                     replay_inputs=None if bad is None else {"solver": self.solver, "clause": nm, "case": bad[1]})
class TangentialBounded(Bounded):
    name = "subsolvers.bounded_tangential"
    solver = "tangential"
    functions = [("cobyqa.subsolvers.optim", "tangential_byrd_omojokun")]

    def case(self, rng):
        return gen(rng, False)


class ConstrainedTangentialBounded(Bounded):
    name = "subsolvers.bounded_constrained_tangential"
    solver = "constrained_tangential"
    functions = [("cobyqa.subsolvers.optim", "constrained_tangential_byrd_omojokun")]

    def case(self, rng):
        return gen(rng, True)


class NormalBounded(Bounded):
    name = "subsolvers.bounded_normal"
    solver = "normal"
    functions = [("cobyqa.subsolvers.optim", "normal_byrd_omojokun")]

    def case(self, rng):
        d = gen(rng, True)
        d["bub"] = d["bub"] * rng.choice([-1.0, 1.0], size=d["bub"].size)      # the origin may violate the linearised constraints
        return d


class GeometryBounded(Bounded):
    name = "subsolvers.bounded_geometry"
    solver = "geometry"
    functions = [("cobyqa.subsolvers.geometry", "cauchy_geometry"), ("cobyqa.subsolvers.geometry", "spider_geometry"),
                 ("cobyqa.subsolvers.geometry", "_cauchy_geom")]

    def case(self, rng):
        d = gen(rng, False)
        d["const"] = float(rng.standard_normal() * (rng.random() > 0.3))
        npt = int(rng.integers(1, 2 * d["n"] + 2))
        d["xpt"] = rng.standard_normal((d["n"], npt)) * 10.0 ** rng.uniform(-3, 3)
        return d


UNITS = [TangentialBounded(), ConstrainedTangentialBounded(), NormalBounded(), GeometryBounded()]
