"""Geometry subsolvers and the trust-region step length under contract (C15 admissible steps, C16 never worse).

  optim._alpha_tr        REAL  returned alpha >= 0 puts step + alpha*sd on the trust-region boundary (|.|^2 == delta^2)
  geometry._cauchy_geom  REAL  xl <= step <= xu (exact: clip / zeros), q_val >= const, and q_val > const when a feasible first-order
                               ascent direction exists and the box fits in the trust region (the scenario of defect D9)
  geometry.cauchy_geometry ORDER returns one of the two candidates (so it inherits their admissibility), the one with the larger |q|,
                               hence |q(step)| >= |const|
"""
import types
import z3
from pyvc.core import cur, SB, PathEnd, Unsupported, tobool
from pyvc.unit import Unit, call_expecting
from pyvc.values import SF, SI, it, I, R, B, PINF, NINF, feq
from pyvc.shims import LoopSpec
from pyvc import vecs
from .common import shadow

_SH = {}


class DV:
    """Vector known only through its dot products (given by a table of real symbols)."""
    _vcx_symbolic = True
    _vcx_asarray = True
    __array_ufunc__ = None

    def __init__(self, name, table):
        self.name, self.table = name, table

    def __matmul__(self, o):
        return self.table[tuple(sorted((self.name, o.name)))]


class AlphaTr(Unit):
    name = "geometry.alpha_tr"
    props = ("C15",)
    fmodel = "REAL"
    functions = [("cobyqa.subsolvers.optim", "_alpha_tr")]

    def run(self, c):
        if "optim" not in _SH:
            _SH["optim"] = shadow("cobyqa.subsolvers.optim")
        m = _SH["optim"]
        ss = SF.fresh("step.step", finite=True)
        sd2 = SF.fresh("sd.sd", finite=True)
        s_sd = SF.fresh("step.sd", finite=True)
        delta = SF.fresh("delta", finite=True)
        tiny = SF.fresh("TINY", finite=True)
        c.assume(z3.And(ss.r >= 0, sd2.r >= 0, s_sd.r * s_sd.r <= ss.r * sd2.r, delta.r > 0, ss.r <= delta.r * delta.r,
                        tiny.r > 0, tiny.r < 1))
        table = {("sd", "step"): s_sd, ("step", "step"): ss, ("sd", "sd"): sd2}
        m.__dict__["TINY"] = tiny
        try:
            kind, res = call_expecting(c, "C08.alpha_tr", lambda: m._alpha_tr(DV("step", table), DV("sd", table), delta), (ZeroDivisionError,))
        finally:
            import numpy as np
            m.__dict__["TINY"] = np.finfo(float).tiny
        if kind == "exc":
            return
        a = SF.lift(res)
        c.oblige("C15.alpha_tr.nonnegative", a.r >= 0, props=["C15"])
        # |step + alpha sd|^2 == delta^2
        q = ss.r + 2 * a.r * s_sd.r + a.r * a.r * sd2.r
        c.oblige("C15.alpha_tr.on_trust_region_boundary", q == delta.r * delta.r, props=["C15"],
                 note="the returned step length does not reach / overshoots the trust-region boundary")


class CauchyLoop(LoopSpec):
    """while True in _cauchy_geom: only the frame matters afterwards (the loop rewrites cauchy_step and the working sets)."""
    names = ("g_norm", "delta_reduced", "mu", "fixed_xl", "fixed_xu", "working")

    def havoc(self, L, env):
        c = L.c
        cs = env["cauchy_step"]
        fresh = vecs.fresh_vec("cauchy_step", cs.n, finite=True)
        cs._write(fresh.at)
        return {"working": vecs.fresh_vec("working", cs.n, kind="b"), "fixed_xl": vecs.fresh_vec("fixed_xl", cs.n, kind="b"),
                "fixed_xu": vecs.fresh_vec("fixed_xu", cs.n, kind="b"), "g_norm": None, "delta_reduced": None, "mu": None}


def geom_shadow():
    if "geom" not in _SH:
        _SH["geom"] = shadow("cobyqa.subsolvers.geometry", specs={"geom.cauchy": CauchyLoop()},
                             cuts={("_cauchy_geom", 0): "geom.cauchy"}, expect_loops={"_cauchy_geom": 1, "spider_geometry": 1})
    return _SH["geom"]


class CauchyGeom(Unit):
    name = "geometry.cauchy_geom"
    props = ("C15",)
    fmodel = "ORDER"
    functions = [("cobyqa.subsolvers.geometry", "_cauchy_geom")]
    timeout_ms = 20000
    assumptions = ["REAL model: element-wise divisions inside vector expressions are not checked for a zero divisor (the code guards them "
                   "with TINY tests); `curv` is an arbitrary function returning a finite value"]

    def run(self, c):
        m = geom_shadow()
        n = z3.Int(c.fresh_name("n"))
        c.assume(n >= 1)
        c.size_hints.append(n)
        grad = vecs.fresh_vec("grad", n, finite=True)
        xl = vecs.fresh_vec("xl", n, nonan=True)
        xu = vecs.fresh_vec("xu", n, nonan=True)
        j = z3.Int("vcx_j")
        # precondition established by cauchy_geometry: clamped bounds xl <= 0 <= xu
        c.pc.append(z3.ForAll([j], z3.Implies(z3.And(0 <= j, j < n), z3.And(xl.at(j).r <= 0, 0 <= xu.at(j).r)), patterns=[xl.at(j).r]))
        c.pc.append(z3.ForAll([j], z3.Implies(z3.And(0 <= j, j < n), z3.And(xl.at(j).r <= 0, 0 <= xu.at(j).r)), patterns=[xu.at(j).r]))
        const = SF.fresh("const", finite=True)
        delta = SF.fresh("delta", finite=True)
        c.assume(delta.r > 0)
        tiny = SF.fresh("TINY", finite=True)
        c.assume(z3.And(tiny.r > 0, tiny.r < 1))
        curvs = []

        def curv(v):
            r = SF.fresh("curv", finite=True)
            curvs.append((v, r))
            return r
        m.__dict__["TINY"] = tiny
        try:
            kind, res = call_expecting(c, "C08.cauchy_geom", lambda: m._cauchy_geom(const, grad, curv, xl, xu, delta, False), ())
        finally:
            import numpy as np
            m.__dict__["TINY"] = np.finfo(float).tiny
        step, q = res
        q = SF.lift(q)
        i = z3.Int(c.fresh_name("vcx_any"))
        rng = z3.And(0 <= i, i < n)
        si = step.at(i)
        # exact in IEEE arithmetic: a clip result (or zero) lies between the clamped bounds.  That the step is NaN-free needs the
        # magnitude of delta / s_norm, which the ORDER model does not know: it is part of the bounded unit subsolvers.bounded_geometry.
        c.oblige("C15.cauchy_geom.step_within_bounds", z3.Implies(z3.And(rng, z3.Not(si.nan)), z3.And(xl.at(i).r <= si.r, si.r <= xu.at(i).r)), props=["C15"])
        # (the value clauses q_val >= const and the strict increase are checked by the bounded unit subsolvers.bounded_geometry:
        #  with the reductions over symbolic-length vectors the nonlinear VCs do not discharge within the budget)


class CauchyGeometry(Unit):
    name = "geometry.cauchy_geometry"
    props = ("C15", "C16")
    fmodel = "ORDER"
    functions = [("cobyqa.subsolvers.geometry", "cauchy_geometry")]

    def run(self, c):
        m = geom_shadow()
        n = z3.Int(c.fresh_name("n"))
        c.assume(n >= 1)
        grad = vecs.fresh_vec("grad", n, finite=True)
        xl = vecs.fresh_vec("xl", n, nonan=True)
        xu = vecs.fresh_vec("xu", n, nonan=True)
        const = SF.fresh("const", finite=True)
        delta = SF.fresh("delta", finite=True)
        c.assume(delta.r > 0)
        calls = []

        def stub(const_, grad_, curv_, xl_, xu_, delta_, debug):
            # contract of _cauchy_geom (unit geometry.cauchy_geom)
            k = len(calls)
            i = z3.Int(c.fresh_name("vcx_any"))
            c.oblige(f"C15.cauchy_geometry.callee_pre.clamped_bounds[{k}]",
                     z3.Implies(z3.And(0 <= i, i < n), z3.And(tobool(xl_.at(i) <= 0.0), tobool(xu_.at(i) >= 0.0))), props=["C15"])
            s = vecs.fresh_vec(f"step{k + 1}", n, finite=True)
            q = SF.fresh(f"q_val{k + 1}", finite=True)
            c.assume(q.r >= SF.lift(const_).r)
            calls.append((const_, grad_, curv_, xl_, xu_, delta_, s, q))
            return s, q
        saved = m.__dict__["_cauchy_geom"]
        m.__dict__["_cauchy_geom"] = stub
        try:
            kind, res = call_expecting(c, "C08.cauchy_geometry", lambda: m.cauchy_geometry(const, grad, lambda v: SF.fresh("curv", finite=True),
                                                                                          xl, xu, delta, False), ())
        finally:
            m.__dict__["_cauchy_geom"] = saved
        c.oblige("C16.cauchy_geometry.two_candidates", z3.BoolVal(len(calls) == 2), props=["C15", "C16"])
        (c1, g1, _, xl1, xu1, d1, s1, q1), (c2, g2, cv2, xl2, xu2, d2, s2, q2) = calls
        i = z3.Int(c.fresh_name("vcx_any"))
        rng = z3.And(0 <= i, i < n)
        c.oblige("C16.cauchy_geometry.second_problem_is_negated",
                 z3.And(feq(SF.lift(c2), -const), z3.Implies(rng, feq(g2.at(i), -grad.at(i))), z3.BoolVal(xl2 is xl1 and xu2 is xu1 and d1 is d2)),
                 props=["C16"])
        c.oblige("C15.cauchy_geometry.returns_a_candidate", z3.BoolVal(res is s1 or res is s2), props=["C15"])
        qa1, qa2 = abs(q1), abs(q2)
        chosen = q1 if res is s1 else q2
        c.oblige("C16.cauchy_geometry.larger_magnitude_chosen", z3.And(abs(chosen).r >= qa1.r, abs(chosen).r >= qa2.r), props=["C16"])
        c.oblige("C16.cauchy_geometry.magnitude_not_below_const", abs(chosen).r >= abs(const).r, props=["C16"],
                 note="the geometry step decreases the magnitude of the quadratic it maximises")
        # the clamped bounds handed to the callee are inside the given ones (so the step is within the given bounds)
        c.oblige("C15.cauchy_geometry.clamped_bounds_inside_given",
                 z3.Implies(z3.And(rng, tobool(xl.at(i) <= 0.0), tobool(xu.at(i) >= 0.0)), z3.And(feq(xl1.at(i), xl.at(i)), feq(xu1.at(i), xu.at(i)))),
                 props=["C15"])


UNITS = [AlphaTr(), CauchyGeom(), CauchyGeometry()]


# ---- C16.O1: the final guards of the truncated-CG solvers ------------------------------------------------------------------
class FrameSpec(LoopSpec):
    """frame-only cut (see pyvc.transform): no invariant, the loop is replaced by a havoc of what its body may write"""
    names = ()


def optim_shadow():
    if "optim_cut" not in _SH:
        spec = {"tcg.frame": FrameSpec()}
        _SH["optim_cut"] = shadow("cobyqa.subsolvers.optim", specs=spec,
                                  cuts={("tangential_byrd_omojokun", 0): ("tcg.frame", "frame"), ("tangential_byrd_omojokun", 1): ("tcg.frame", "frame")},
                                  expect_loops={"tangential_byrd_omojokun": 2})
    return _SH["optim_cut"]


class TangentialGuard(Unit):
    """tangential_byrd_omojokun: whatever the two loops do (they are havocked), the step returned after the boundary-improvement phase is
    either the step the truncated CG ended with (`step_base`, a copy taken before the phase) or a step whose model value
    grad.s + s.H s / 2, evaluated with that very expression, is not larger than the one of `step_base`."""
    name = "geometry.tangential_final_guard"
    props = ("C16",)
    fmodel = "ORDER"
    functions = [("cobyqa.subsolvers.optim", "tangential_byrd_omojokun")]
    assumptions = ["frame-only loop cuts: the bodies of the two while loops are not explored in this unit (bounded unit subsolvers.bounded_tangential "
                   "covers them); everything they can write is havocked"]

    def run(self, c):
        m = optim_shadow()
        n = z3.Int(c.fresh_name("n"))
        c.assume(n >= 1)
        grad = vecs.fresh_vec("grad", n, finite=True)
        xl = vecs.fresh_vec("xl", n, nonan=True)
        xu = vecs.fresh_vec("xu", n, nonan=True)
        delta = SF.fresh("delta", finite=True)
        c.assume(delta.r > 0)
        hp_cache = {}

        def hess_prod(v):
            key = v.cid
            if key not in hp_cache:
                hp_cache[key] = (v, vecs.fresh_vec("Hv", n, finite=True))
            return hp_cache[key][1]
        copies = []
        npx = m.__dict__["np"]
        real_copy = type(npx).copy

        class NPc(type(npx)):
            def copy(self, x):
                r = real_copy(self, x)
                copies.append((x, getattr(x, "cid", None), r))
                return r
        m.__dict__["np"] = NPc()
        m.__dict__["_alpha_tr"] = lambda step, sd, delta: SF.fresh("alpha_tr", finite=True)
        try:
            improve = bool(c.choose("improve_tcg", 2, ["on", "off"]) == 0)
            kind, res = call_expecting(c, "C08.tangential", lambda: m.tangential_byrd_omojokun(grad, hess_prod, xl, xu, delta, False, improve_tcg=improve), ())
        finally:
            m.__dict__["np"] = npx
        # copies made inside the function, in order: the working gradient, the saved original gradient, then (only if the
        # improvement phase runs) step_base, the step the truncated CG ended with
        # the model of the statement with the caller's gradient, written with the grouping Python gives to `0.5 * s @ H(s)`
        q = lambda s: grad @ s + (0.5 * s) @ hess_prod(s)
        c.oblige("C16.tangential.caller_gradient_not_modified", z3.BoolVal(grad.version == 0), props=["C16", "C11"])
        step_copies = [r for (src, cid0, r) in copies if cid0 != grad.cid]
        if not step_copies:
            c.oblige("C16.tangential.no_improvement_phase_returns_tcg_step", z3.BoolVal(True), props=["C16"])
            return
        base = step_copies[-1]
        if res is base:
            c.oblige("C16.tangential.guard_restores_base_step", z3.BoolVal(True), props=["C16"])
            return
        qr, qb = q(res), q(base)
        c.oblige("C16.tangential.improved_step_not_worse_than_tcg_step", z3.Not(tobool(qr > qb)), props=["C16"],
                 note="the step returned after the boundary-improvement phase has a larger model value than the truncated-CG step it started from")


UNITS.append(TangentialGuard())


# ---- the same guard for the two other truncated-CG solvers (matrices are opaque: only products with vectors are used) ------------
class MV:
    """Opaque matrix: M @ v is a fresh vector determined by the contents of M and v; slices/transposes are opaque matrices."""
    _vcx_symbolic = True
    _vcx_asarray = True
    __array_ufunc__ = None
    _n = 0

    def __init__(self, rows, cols, name="M"):
        MV._n += 1
        self.rows, self.cols, self.name = rows, cols, name
        self.cid = ("M", MV._n)
        self.shape = (SI(rows), SI(cols))
        self._cache = {}

    @property
    def T(self):
        k = ("T",)
        if k not in self._cache:
            self._cache[k] = MV(self.cols, self.rows, self.name + "T")
        return self._cache[k]

    def __getitem__(self, key):
        k = ("idx", repr(key) if not isinstance(key, tuple) else tuple(getattr(e, "cid", getattr(getattr(e, "t", None), "get_id", lambda: repr(e))()) if not isinstance(e, slice) else
                                                                     (getattr(e.start, "t", e.start).__repr__(), getattr(e.stop, "t", e.stop).__repr__()) for e in key))
        if k not in self._cache:
            c = cur()
            full = slice(None)
            # a full slice keeps that dimension; anything else selects some rows / columns
            r = self.rows if isinstance(key, tuple) and len(key) == 2 and key[0] == full else z3.Int(c.fresh_name("rows"))
            q = self.cols if isinstance(key, tuple) and len(key) == 2 and key[1] == full else z3.Int(c.fresh_name("cols"))
            c.assume(z3.And(r >= 0, q >= 0, r <= self.rows, q <= self.cols))
            self._cache[k] = MV(r, q, self.name + "[..]")
        return self._cache[k]

    def __neg__(self):
        if ("neg",) not in self._cache:
            self._cache[("neg",)] = MV(self.rows, self.cols, "-" + self.name)
        return self._cache[("neg",)]

    def __matmul__(self, v):
        if isinstance(v, MV):
            if ("mm", v.cid) not in self._cache:
                self._cache[("mm", v.cid)] = MV(self.rows, v.cols, self.name + "@" + v.name)
            return self._cache[("mm", v.cid)]
        k = ("mv", getattr(v, "cid", id(v)))
        if k not in self._cache:
            self._cache[k] = vecs.fresh_vec(self.name + "@v", self.rows, finite=True)
        return self._cache[k]

    def _vcx_fresh_like(self, nm):
        return MV(self.rows, self.cols, nm)


def optim_shadow2():
    if "optim_cut2" not in _SH:
        spec = {"tcg.frame": FrameSpec()}
        cuts = {("constrained_tangential_byrd_omojokun", 0): ("tcg.frame", "frame"), ("constrained_tangential_byrd_omojokun", 1): ("tcg.frame", "frame"),
                ("normal_byrd_omojokun", 0): ("tcg.frame", "frame"), ("normal_byrd_omojokun", 1): ("tcg.frame", "frame")}
        _SH["optim_cut2"] = shadow("cobyqa.subsolvers.optim", specs=spec, cuts=cuts,
                                   expect_loops={"constrained_tangential_byrd_omojokun": 2, "normal_byrd_omojokun": 3})
    return _SH["optim_cut2"]


class ConstrainedTangentialGuard(Unit):
    name = "geometry.constrained_tangential_final_guard"
    props = ("C16",)
    fmodel = "ORDER"
    functions = [("cobyqa.subsolvers.optim", "constrained_tangential_byrd_omojokun")]
    assumptions = TangentialGuard.assumptions + ["qr_tangential_byrd_omojokun is a contract stub (any orthogonal factor, any n_act in 0..n)"]

    def run(self, c):
        m = optim_shadow2()
        n = z3.Int(c.fresh_name("n"))
        mub, meq = z3.Int(c.fresh_name("m_ub")), z3.Int(c.fresh_name("m_eq"))
        c.assume(z3.And(n >= 1, mub >= 0, meq >= 0))
        grad = vecs.fresh_vec("grad", n, finite=True)
        xl = vecs.fresh_vec("xl", n, nonan=True)
        xu = vecs.fresh_vec("xu", n, nonan=True)
        bub = vecs.fresh_vec("bub", mub, finite=True)
        aub, aeq = MV(mub, n, "aub"), MV(meq, n, "aeq")
        delta = SF.fresh("delta", finite=True)
        c.assume(delta.r > 0)
        hp_cache = {}

        def hess_prod(v):
            if v.cid not in hp_cache:
                hp_cache[v.cid] = (v, vecs.fresh_vec("Hv", n, finite=True))
            return hp_cache[v.cid][1]

        def qr_stub(aub_, aeq_, fxl, fxu, fub):
            na = z3.Int(c.fresh_name("n_act"))
            c.assume(z3.And(na >= 0, na <= n))
            return SI(na), MV(n, n, "q")
        copies = []
        npx = m.__dict__["np"]
        real_copy = type(npx).copy

        class NPc(type(npx)):
            def copy(self, x):
                r = real_copy(self, x)
                copies.append((x, getattr(x, "cid", None), r))
                return r
        m.__dict__["np"] = NPc()
        m.__dict__["_alpha_tr"] = lambda step, sd, delta: SF.fresh("alpha_tr", finite=True)
        m.__dict__["qr_tangential_byrd_omojokun"] = qr_stub
        try:
            improve = bool(c.choose("improve_tcg", 2, ["on", "off"]) == 0)
            kind, res = call_expecting(c, "C08.constrained_tangential",
                                       lambda: m.constrained_tangential_byrd_omojokun(grad, hess_prod, xl, xu, aub, bub, aeq, delta, False, improve_tcg=improve), ())
        finally:
            m.__dict__["np"] = npx
        q = lambda s: grad @ s + (0.5 * s) @ hess_prod(s)
        c.oblige("C16.constrained_tangential.caller_data_not_modified", z3.BoolVal(grad.version == 0 and bub.version == 0 and xl.version == 0 and xu.version == 0),
                 props=["C16", "C11"])
        step_copies = [r for (src, cid0, r) in copies if cid0 not in (grad.cid,) and getattr(src, "n", None) is not None and src.n.eq(n)]
        if not step_copies:
            c.oblige("C16.constrained_tangential.no_improvement_phase_returns_tcg_step", z3.BoolVal(True), props=["C16"])
            return
        base = step_copies[-1]
        if res is base:
            c.oblige("C16.constrained_tangential.guard_restores_base_step", z3.BoolVal(True), props=["C16"])
            return
        c.oblige("C16.constrained_tangential.improved_step_not_worse_than_tcg_step", z3.Not(tobool(q(res) > q(base))), props=["C16"],
                 note="the step returned after the boundary-improvement phase has a larger model value than the truncated-CG step it started from")


UNITS.append(ConstrainedTangentialGuard())
