"""Discharging obligations: z3 first, cvc5 (CLI) on z3's `unknown`."""
import os
import shutil
import subprocess
import tempfile
import time
import z3
from .core import has_quant

CVC5 = shutil.which("cvc5") or "/usr/bin/cvc5"
LAST_MODEL = None


def _model_dict(m):
    out = {}
    for d in m.decls():
        if d.arity() == 0:
            v = m[d]
            out[d.name()] = str(v)
        else:
            s = str(m[d])
            out[d.name()] = s if len(s) < 400 else s[:400] + "..."
    return out


def _cvc5(smt2, timeout_ms):
    if not os.path.exists(CVC5):
        return "unknown"
    with tempfile.NamedTemporaryFile("w", suffix=".smt2", delete=False, dir=os.environ.get("VCX_TMP", None)) as fh:
        fh.write("(set-logic ALL)\n" + smt2)
        path = fh.name
    try:
        p = subprocess.run([CVC5, "--lang", "smt2", f"--tlimit={timeout_ms}", path],
                           capture_output=True, text=True, timeout=timeout_ms / 1000 + 5)
        out = p.stdout.strip().splitlines()
        return out[0].strip() if out else "unknown"
    except Exception:
        return "unknown"
    finally:
        os.unlink(path)


_WEAK = {"vcx_PINF", "vcx_NINF"}
SYMCACHE = {}      # per path (reset by run_unit): ast id -> symbols; the path's terms stay alive while it is used


def _symbols(t, cache):
    """Uninterpreted symbol names (constants and functions) occurring in t."""
    i = t.get_id()
    if i in cache:
        return cache[i][1]
    out = set()
    todo = [t]
    seen = set()
    while todo:
        u = todo.pop()
        k = u.get_id()
        if k in seen:
            continue
        seen.add(k)
        if z3.is_quantifier(u):
            todo.append(u.body())
            continue
        if z3.is_app(u):
            d = u.decl()
            if d.kind() == z3.Z3_OP_UNINTERPRETED:
                out.add(d.name())
            todo.extend(u.children())
    cache[i] = (t, out)        # keep the term alive: z3 reuses the ids of freed terms
    return out


def cone_of_influence(pc, goal):
    """Keep the assumptions connected to the goal through shared uninterpreted symbols (dropping hypotheses is sound)."""
    cache = SYMCACHE
    # flatten top-level conjunctions so that unrelated facts bundled in one assumption do not connect everything
    flat = []
    todo = list(pc)
    while todo:
        a = todo.pop()
        if z3.is_and(a):
            todo.extend(a.children())
        else:
            flat.append(a)
    pc = flat
    rel = set(_symbols(goal, cache)) - _WEAK
    syms = [(_symbols(a, cache) - _WEAK) for a in pc]
    keep = [False] * len(pc)
    changed = True
    while changed:
        changed = False
        for i, sy in enumerate(syms):
            if not keep[i] and (sy & rel or not sy):
                keep[i] = True
                if not sy <= rel:
                    rel |= sy
                    changed = True
    return [a for a, k in zip(pc, keep) if k]


def real_arith(t):
    """Interpret the uninterpreted float operations as exact real arithmetic (candidate-model search only: models with
    small dyadic values then replay exactly in floating point)."""
    from .values import _UF
    R = z3.RealSort()
    x, y = z3.Var(0, R), z3.Var(1, R)
    subs = []
    for (name, ar), f in _UF.items():
        if ar != 2:
            continue
        body = {"add": x + y, "sub": x - y, "mul": x * y, "div": x / y}.get(name)
        if body is not None:
            subs.append((f, body))
    if not subs:
        return t
    try:
        return z3.substitute_funs(t, *subs)
    except Exception:
        return t


def finite_expand(t, k):
    """Replace every quantifier over one Int variable by its instances at 0..k-1 (None if some quantifier is not of that
    shape, e.g. the monotonicity axioms over reals: such assertions are dropped by the caller)."""
    if z3.is_quantifier(t):
        if t.num_vars() != 1 or t.var_sort(0) != z3.IntSort():
            return None
        body = t.body()
        insts = []
        for i in range(k):
            b = finite_expand(z3.substitute_vars(body, z3.IntVal(i)), k)
            if b is None:
                return None
            insts.append(b)
        return z3.And(*insts) if t.is_forall() else z3.Or(*insts)
    if not has_quant(t):
        return t
    if z3.is_app(t):
        ch = [finite_expand(c, k) for c in t.children()]
        if any(c is None for c in ch):
            return None
        return t.decl()(*ch)
    return None


def check_sat(assertions, timeout_ms, use_cvc5=True, seed=0):
    """Returns (verdict, model_dict_or_None, backend, seconds).

    Portfolio: (1) z3 with E-matching only (no MBQI) - fast and sufficient for almost all `unsat` answers;
    (2) z3's default tactic pipeline; (3) z3 with MBQI (counter-models); (4) cvc5 on z3's `unknown`."""
    global LAST_MODEL
    t0 = time.time()
    quant = any(has_quant(a) for a in assertions)
    if quant:
        s1 = z3.Solver()
        s1.set(timeout=min(timeout_ms, 3000))
        s1.set("smt.mbqi", False)
        s1.add(*assertions)
        r = s1.check()
        if r == z3.unsat:
            return "unsat", None, "z3(ematching)", time.time() - t0
        s2 = z3.Tactic("default").solver()
        s2.set(timeout=min(timeout_ms, 5000))
        s2.add(*assertions)
        r = s2.check()
        if r == z3.unsat:
            return "unsat", None, "z3(default-tactic)", time.time() - t0
        if r == z3.sat:
            LAST_MODEL = s2.model()
            return "sat", _model_dict(LAST_MODEL), "z3(default-tactic)", time.time() - t0
    s = z3.Solver()
    s.set(timeout=timeout_ms)
    if seed:
        s.set(random_seed=seed)
    s.add(*assertions)
    r = s.check()
    if r == z3.unsat:
        return "unsat", None, "z3", time.time() - t0
    if r == z3.sat:
        LAST_MODEL = s.model()
        return "sat", _model_dict(LAST_MODEL), "z3", time.time() - t0
    if use_cvc5:
        v = _cvc5(s.to_smt2(), timeout_ms)
        if v == "unsat":
            return "unsat", None, "cvc5", time.time() - t0
        if v == "sat":
            return "sat", {}, "cvc5", time.time() - t0
    return "unknown", None, "z3+cvc5", time.time() - t0


def discharge(ob, timeout_ms=10000, use_cvc5=True):
    g = ob.goal
    if z3.is_true(g):
        ob.verdict, ob.backend, ob.secs = "unsat", "trivial", 0.0
        return ob
    global LAST_MODEL
    LAST_MODEL = None
    guard = None
    if z3.is_implies(g) and z3.is_false(g.arg(1)):
        guard = g.arg(0)            # `false` obliged inside an `and`/`or` operand: reachable iff the guard is
    if z3.is_false(g) or guard is not None:
        # the goal is literally `false` (an event that must not happen on this path happened): the question is only whether the
        # path is feasible.  Every branch decision of the path was checked feasible on its quantifier-free part; that part is asked
        # once more here, so that a counter-model is available without waiting for the quantified part to time out.
        qf = [a for a in ob.pc if not has_quant(a)] + ([guard] if guard is not None else [])
        v, m, be, secs = check_sat(qf, min(timeout_ms, 5000), use_cvc5=False)
        if v == "sat":
            ob.verdict, ob.model, ob.backend, ob.secs = "sat", m, be + "(path-feasibility)", secs
            ob.zmodel = LAST_MODEL
            return ob
    # first on the cone of influence of the goal (sound: fewer hypotheses); a `sat`/`unknown` there is re-asked on the full
    # path condition, so that counter-models always satisfy every assumption
    coi = cone_of_influence(list(ob.pc), g)
    if not has_quant(g) and any(has_quant(a) for a in coi):
        # cheapest attempt first: the quantifier-free part of the cone (sound: fewer hypotheses).  Element-wise goals at a fresh index
        # usually follow from the definitions inlined at that index and need none of the quantified facts
        qf_only = [a for a in coi if not has_quant(a)]
        v0, _, be0, secs0 = check_sat(qf_only + [z3.Not(g)], min(timeout_ms, 4000), use_cvc5=False)
        if v0 == "unsat":
            ob.verdict, ob.model, ob.backend, ob.secs = "unsat", None, be0 + "(qf-cone)", secs0
            ob.zmodel = None
            return ob
    v, m, be, secs = check_sat(coi + [z3.Not(g)], timeout_ms, use_cvc5=False)
    if v == "sat" and len(coi) < len(ob.pc):
        # The cone is closed under shared symbols, so the remaining assumptions are symbol-disjoint from cone and goal: the cone's
        # counter-model extends to the whole path condition iff the remainder is satisfiable.  Ask the full query briefly; only a
        # definite `unsat` (a vacuous path) overrides the refutation.
        cone_model = LAST_MODEL
        v2, m2, be2, secs2 = check_sat(list(ob.pc) + [z3.Not(g)], min(timeout_ms, 3000), use_cvc5=False)
        secs += secs2
        if v2 == "unsat":
            v, m, be = "unsat", None, be2 + "(vacuous path)"
        elif v2 == "sat":
            m, be = m2, be2
        else:
            LAST_MODEL = cone_model
            be = be + "(cone)"
    elif v != "unsat" and len(coi) < len(ob.pc):
        v, m, be, secs2 = check_sat(list(ob.pc) + [z3.Not(g)], timeout_ms, use_cvc5)
        secs += secs2
    elif v == "unknown" and use_cvc5:
        v, m, be, secs2 = check_sat(list(ob.pc) + [z3.Not(g)], timeout_ms, use_cvc5)
        secs += secs2
    if v == "unknown" and ob.hints:
        # Candidate counter-model search.  Sequence lengths are bounded by k and every quantifier over an Int index is
        # expanded over 0..k-1 (other quantified axioms are dropped).  This weakens the hypotheses, so a model found here is
        # only a *candidate*: it is reported as a violation only if the native replay reproduces it (run.py); otherwise the
        # obligation stays undecided.
        for k in (1, 2, 3, 4):
            qf = []
            for a in list(ob.pc) + [z3.Not(g)]:
                e = finite_expand(a, k)
                if e is not None:
                    qf.append(real_arith(e))
            extra = [h <= k for h in ob.hints]
            sK = z3.Solver()
            sK.set(timeout=min(timeout_ms, 10000))
            sK.add(*qf)
            sK.add(*extra)
            t1 = time.time()
            r = sK.check()
            secs += time.time() - t1
            if r == z3.sat:
                LAST_MODEL = sK.model()
                v, m, be = "candidate", _model_dict(LAST_MODEL), f"z3(finite-expansion k={k})"
                break
    ob.verdict, ob.model, ob.backend, ob.secs = v, m, be, secs
    ob.zmodel = LAST_MODEL if v in ("sat", "candidate") else None
    return ob
