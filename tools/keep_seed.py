#!/usr/bin/env python3
"""tools/keep_seed.py <Cnn> <name> <patch> <demo> <needs> <caught_by> [<note>]: store a confirmed seeded change under seeded/."""
import json, os, shutil, sys, subprocess
prop, name, patch, demo, needs, caught = sys.argv[1:7]
note = sys.argv[7] if len(sys.argv) > 7 else ""
d = os.path.join(os.path.dirname(os.path.dirname(os.path.abspath(__file__))), "seeded", name)
os.makedirs(d, exist_ok=True)
shutil.copy(patch, os.path.join(d, "patch.diff"))
shutil.copy(demo, os.path.join(d, os.path.basename(demo)))
head = subprocess.check_output(["git", "-C", "/repo", "rev-parse", "--short", "HEAD"]).decode().strip()
meta = {"property": prop, "source": "independent sub-agent given only the property text and a scratch worktree",
        "needs_to_manifest": needs, "confirmed": "tools/confirm_seed.sh: existing tests pass unchanged with and "
        "without the patch; demo exits 0 on the clean tree and non-zero with the patch; scratch worktree removed afterwards",
        "repo_head_when_confirmed": head, "caught_by": caught, "note": note,
        "ran": f"tools/confirm_seed.sh {prop} seeded/{name}/patch.diff seeded/{name}/{os.path.basename(demo)}"}
json.dump(meta, open(os.path.join(d, "meta.json"), "w"), indent=1)
print("kept", d)
