"""C10 (equivalent statements are solved identically).

The argument has two parts (DESIGN 5/C10): (i) the normalisation layer maps equivalent statements to the same internal data - checked
by contracts on build_x (boxes.build_x), NonlinearConstraints.__call__ (nlcons.nonlinear_call: rows depend only on the components'
limits and values, objects contribute in order) and the bounded stand-in for Problem.__init__ (problem.init_bounded: the reduced /
scaled linear data reproduce the user's residuals); (ii) the core is a deterministic function of that data (C11 frames).
This file adds the BOUNDED end-to-end cross-check: pairs of equivalent statements are solved natively and the sequences of evaluated
points and the results are compared bit for bit (scaling: to rounding).  Labelled bounded: a stated corpus of pairs."""
import z3
import numpy as np
from pyvc.unit import Unit
from pyvc.transform import ensure_repo_on_path


def run(fun, x0, **kw):
    from cobyqa import minimize
    pts = []

    def f(x):
        pts.append(np.array(x))
        return fun(x)
    kw.setdefault("options", {})
    kw["options"] = dict(kw["options"], maxfev=150)
    r = minimize(f, x0, **kw)
    return r, pts


def same(a, b, cols=None, tol=0.0):
    ra, pa = a
    rb, pb = b
    if len(pa) != len(pb) or ra.status != rb.status or ra.nfev != rb.nfev:
        return False
    for x, y in zip(pa, pb):
        x = x if cols is None else x[cols]
        if tol == 0.0:
            if not np.array_equal(x, y):
                return False
        elif not np.allclose(x, y, rtol=tol, atol=tol):
            return False
    xa = ra.x if cols is None else ra.x[cols]
    return bool(np.array_equal(xa, rb.x) if tol == 0.0 else np.allclose(xa, rb.x, rtol=tol, atol=tol)) and \
        (ra.fun == rb.fun if tol == 0.0 else abs(ra.fun - rb.fun) <= tol * (1 + abs(rb.fun)))


class EquivalentStatements(Unit):
    name = "c10.equivalent_statements"
    props = ("C10",)
    fmodel = "ORDER"
    functions = [("cobyqa.main", "minimize"), ("cobyqa.main", "_get_bounds"), ("cobyqa.main", "_get_constraints")]
    bounded = "native comparison of 11 pairs of equivalent problem statements (evaluation sequences and results, bit for bit; scaling to 1e-9)"

    def run(self, c):
        ensure_repo_on_path()
        from scipy.optimize import Bounds, LinearConstraint, NonlinearConstraint
        f = lambda x: float((x[0] - 1) ** 2 + (x[1] - 2.5) ** 2 + 0.3 * np.sin(x[0] * x[1]))
        res = {}
        with np.errstate(all="ignore"):
            lb, ub = [0.0, -1.0], [3.0, 2.0]
            res["bounds_object_vs_array"] = same(run(f, [2.0, 0.0], bounds=Bounds(lb, ub)), run(f, [2.0, 0.0], bounds=np.column_stack([lb, ub])))
            # a half-infinite box: the array / list-of-pairs forms with an explicit infinity, and with None for "no bound"
            lbi, ubi = [0.0, -1.0], [np.inf, 2.0]
            ref = run(f, [2.0, 0.0], bounds=Bounds(lbi, ubi))
            res["half_infinite_bounds_object_vs_array"] = same(ref, run(f, [2.0, 0.0], bounds=np.column_stack([lbi, ubi])))
            res["half_infinite_bounds_object_vs_pairs"] = same(ref, run(f, [2.0, 0.0], bounds=[(0.0, np.inf), (-1.0, 2.0)]))
            res["half_infinite_bounds_object_vs_pairs_with_none"] = same(ref, run(f, [2.0, 0.0], bounds=[(0.0, None), (-1.0, 2.0)]))
            g = lambda x: x[0] - 2 * x[1] + 2
            res["dict_vs_nonlinear_constraint"] = same(run(f, [2.0, 0.0], constraints={"type": "ineq", "fun": g}),
                                                       run(f, [2.0, 0.0], constraints=NonlinearConstraint(g, 0.0, np.inf)))
            res["dict_eq_with_args_vs_nonlinear_constraint"] = same(
                run(f, [2.0, 0.0], constraints={"type": "eq", "fun": lambda x, a: x[0] + x[1] - a, "args": (3.0,)}),
                run(f, [2.0, 0.0], constraints=NonlinearConstraint(lambda x: x[0] + x[1] - 3.0, 0.0, 0.0)))
            h = lambda x: x[0] ** 2 + x[1]
            res["two_sided_vs_two_one_sided"] = same(run(f, [2.0, 0.0], constraints=NonlinearConstraint(h, 1.0, 4.0)),
                                                     run(f, [2.0, 0.0], constraints=[NonlinearConstraint(h, 1.0, np.inf), NonlinearConstraint(h, -np.inf, 4.0)]))
            res["single_constraint_vs_list_of_one"] = same(run(f, [2.0, 0.0], constraints=NonlinearConstraint(h, 1.0, 4.0)),
                                                           run(f, [2.0, 0.0], constraints=[NonlinearConstraint(h, 1.0, 4.0)]))
            A = [[1.0, 2.0], [1.0, -1.0]]
            res["linear_split_without_reordering"] = same(
                run(f, [2.0, 0.0], constraints=LinearConstraint(A, [-np.inf, -np.inf], [6.0, 2.0])),
                run(f, [2.0, 0.0], constraints=[LinearConstraint([A[0]], -np.inf, 6.0), LinearConstraint([A[1]], -np.inf, 2.0)]))
            # variables fixed by equal bounds versus eliminated by hand
            f3 = lambda x: float((x[0] - 1) ** 2 + (x[1] - 2.5) ** 2 + 0.3 * np.sin(x[0] * x[1]) + x[2] ** 2)
            fixed = run(f3, [2.0, 0.0, 1.5], bounds=Bounds([0.0, -1.0, 1.5], [3.0, 2.0, 1.5]),
                        constraints=LinearConstraint([[1.0, 2.0, 1.0]], -np.inf, 7.5))
            hand = run(lambda y: f3(np.array([y[0], y[1], 1.5])), [2.0, 0.0], bounds=Bounds([0.0, -1.0], [3.0, 2.0]),
                       constraints=LinearConstraint([[1.0, 2.0]], -np.inf, 6.0))
            res["fixed_variable_vs_hand_elimination"] = same(fixed, hand, cols=[0, 1])
            # scale=True versus the explicitly rescaled unit-box problem mapped back
            lb2, ub2 = np.array([0.0, -1.0]), np.array([4.0, 3.0])
            s, t = 0.5 * (ub2 - lb2), 0.5 * (ub2 + lb2)
            scaled = run(f, [2.0, 0.0], bounds=Bounds(lb2, ub2), options={"scale": True})
            byhand_r, byhand_p = run(lambda y: f(y * s + t), list((np.array([2.0, 0.0]) - t) / s), bounds=Bounds([-1.0, -1.0], [1.0, 1.0]))
            byhand_r.x = byhand_r.x * s + t
            res["scale_vs_explicit_unit_box"] = same(scaled, (byhand_r, [p * s + t for p in byhand_p]), tol=1e-9)
        for k, ok in res.items():
            c.oblige("C10.equivalent." + k, z3.BoolVal(bool(ok)), kind="bounded", note=None if ok else "the two statements are solved differently")


UNITS = [EquivalentStatements()]
