#!/bin/sh
# tools/mutant.sh <patch-file> <check args...>: run ./check against a scratch copy of /repo with the patch applied.
# The scratch copy lives outside /repo and /verif and is removed afterwards.
P="$1"; shift
D=$(mktemp -d /tmp/vcx-mut.XXXXXX)
trap 'rm -rf "$D"' EXIT
cp -r /repo/cobyqa "$D/cobyqa"
( cd "$D" && patch -p1 -s < "$P" ) || { echo "patch failed"; exit 3; }
REPO="$D" /verif/check "$@"
