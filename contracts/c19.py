"""C19: options and constants are validated and completed consistently.

Spec (transcribed from the docstring of `minimize` and the property statement, independent of the code):
each option / constant has a documented domain; coupled pairs have a documented relation; ValueError is
raised iff some supplied value is outside its domain or a supplied pair violates its relation; otherwise all
keys are present, typed, inside their domains, the relations hold and unsupplied entries take the documented
default (or the documented derivation from the supplied partner).
"""
import sys
import z3
from pyvc.core import cur, SB, PathEnd, Unsupported
from pyvc.unit import Unit, call_expecting
from pyvc.values import SF, SI, it, PINF, NINF, realval
from pyvc.dicts import SDict, Maybe
from .common import (shadow, CONST_DOMAINS, CONST_RELATIONS, CONST_DEFAULTS, in_domain, relation_holds,
                     constants_valid)

OPTION_KINDS = {
    "disp": "b", "maxfev": "i", "maxiter": "i", "target": "f", "feasibility_tol": "f", "radius_init": "f",
    "radius_final": "f", "nb_points": "i", "scale": "b", "filter_size": "i", "store_history": "b",
    "history_size": "i", "debug": "b",
}
UNKNOWN = "vcx_unknown_key"
_SH = {}


class WarnLog:
    """Stand-in for the `warnings` module inside the shadow module: records instead of printing."""
    def warn(self, msg, cat=None, stacklevel=1):
        cur().log.append(("warn", str(msg), cat))


def main_shadow():
    if "m" not in _SH:
        _SH["m"] = shadow("cobyqa.main", extra={"warnings": WarnLog()})
    return _SH["m"]


def fresh_value(c, name, kind):
    if kind == "f":
        return SF.fresh(name, finite=True)
    if kind == "i":
        v = SI(z3.Int(c.fresh_name(name)))
        c.named[name] = v
        return v
    v = SB(z3.Bool(c.fresh_name(name)))
    c.named[name] = v
    return v


def sym_options(c):
    ent = {}
    for k, kind in OPTION_KINDS.items():
        p = z3.Bool(c.fresh_name("has_" + k))
        c.named["has_" + k] = SB(p)
        ent[k] = (p, fresh_value(c, k, kind))
    pu = z3.Bool(c.fresh_name("has_unknown"))
    c.named["has_unknown"] = SB(pu)
    ent[UNKNOWN] = (pu, object())
    return SDict(ent, "solver", "options")


def rv(x):
    return SF.lift(x).r


class SetDefaultOptions(Unit):
    name = "C19.set_default_options"
    props = ("C19", "C18", "C05")   # post.domains is assumed by Interpolation.__init__ / minimize (radii for C18, budgets for C05)
    default_props = ("C19",)
    fmodel = "REAL"
    functions = [("cobyqa.main", "_set_default_options")]
    replay = ("contracts.replays", "set_default_options")

    def run(self, c):
        from cobyqa.settings import Options
        m = main_shadow()
        opts = sym_options(c)
        pre = {k: (opts.present(k), opts.value(k)) for k in OPTION_KINDS}
        has_unknown = opts.present(UNKNOWN)
        n = SI(z3.Int(c.fresh_name("n")))
        c.named["n"] = n
        c.assume(n.t >= 0)
        P = lambda k: pre[k][0]
        V = lambda k: pre[k][1]
        npt_max = ((n.t + 1) * (n.t + 2)) / 2
        bad = z3.Or(
            z3.And(P("radius_init"), rv(V("radius_init")) <= 0),
            z3.And(P("radius_final"), rv(V("radius_final")) < 0),
            z3.And(P("radius_init"), P("radius_final"), rv(V("radius_init")) < rv(V("radius_final"))),
            z3.And(P("nb_points"), z3.Or(V("nb_points").t < n.t + 1, V("nb_points").t > npt_max)),
            z3.And(P("maxfev"), V("maxfev").t <= 0),
            z3.And(P("maxiter"), V("maxiter").t <= 0),
        )
        kind, exc = call_expecting(c, "C19.set_default_options", lambda: m._set_default_options(opts, n), (ValueError,))
        if kind == "exc":
            c.oblige("C19.set_default_options.raises_only_if_bad", bad)
            return
        c.oblige("C19.set_default_options.returns_only_if_good", z3.Not(bad),
                 note="a value outside its documented domain was accepted")
        # every key present
        c.oblige_all([(f"C19.set_default_options.post.present.{k}", opts.present(k)) for k in OPTION_KINDS])
        o = {k: opts.value(k) for k in OPTION_KINDS}
        typed = all(isinstance(o[k], {"f": SF, "i": SI, "b": (SB, bool)}[OPTION_KINDS[k]]) or
                    (OPTION_KINDS[k] == "f" and isinstance(o[k], float)) or
                    (OPTION_KINDS[k] == "i" and isinstance(o[k], int))
                    for k in OPTION_KINDS)
        c.oblige("C19.set_default_options.post.typed", z3.BoolVal(bool(typed)))
        ri, rf = rv(o["radius_init"]), rv(o["radius_final"])
        npt, mf, mi = it(o["nb_points"]), it(o["maxfev"]), it(o["maxiter"])
        # N9: maxfev/maxiter >= 1 is a restriction on *supplied* values; the documented defaults 500*n / 1000*n are 0 when
        # every variable is fixed (n == 0), in which case minimize returns before using them.
        c.oblige("C19.set_default_options.post.domains", z3.And(ri > 0, rf >= 0, rf <= ri, npt >= n.t + 1, npt <= npt_max,
                                                                z3.Implies(z3.Or(n.t >= 1, P("maxfev")), mf >= 1),
                                                                z3.Implies(z3.Or(n.t >= 1, P("maxiter")), mi >= 1)),
                 props=["C19", "C18", "C05"])
        # supplied values are kept
        kept = []
        from pyvc.core import tobool
        for k in OPTION_KINDS:
            pv = V(k)
            if OPTION_KINDS[k] == "f":
                same = rv(o[k]) == rv(pv)
            elif OPTION_KINDS[k] == "i":
                same = it(o[k]) == it(pv)
            else:
                same = tobool(o[k]) == tobool(pv)
            kept.append((f"C19.set_default_options.post.supplied_kept.{k}", z3.Implies(P(k), same)))
        c.oblige_all(kept)
        # documented defaults / derivations for unsupplied keys
        D = {
            "radius_init": z3.If(P("radius_final"), z3.If(rv(V("radius_final")) > 1, rv(V("radius_final")), z3.RealVal(1)), z3.RealVal(1)),
            "radius_final": z3.If(P("radius_init"), z3.If(rv(V("radius_init")) < realval(1e-6), rv(V("radius_init")), realval(1e-6)), realval(1e-6)),
        }
        c.oblige("C19.set_default_options.post.default.radius_init", z3.Implies(z3.Not(P("radius_init")), ri == D["radius_init"]))
        c.oblige("C19.set_default_options.post.default.radius_final", z3.Implies(z3.Not(P("radius_final")), rf == D["radius_final"]))
        c.oblige("C19.set_default_options.post.default.nb_points", z3.Implies(z3.Not(P("nb_points")), npt == 2 * n.t + 1))
        c.oblige("C19.set_default_options.post.default.maxfev",
                 z3.Implies(z3.Not(P("maxfev")), mf == z3.If(500 * n.t >= npt + 1, 500 * n.t, npt + 1)),
                 note="documented default 500*n, raised to nb_points+1 so that the initial sampling fits (interpretation N8)")
        c.oblige("C19.set_default_options.post.default.maxiter", z3.Implies(z3.Not(P("maxiter")), mi == 1000 * n.t) if True else None)
        import numpy as np
        c.oblige("C19.set_default_options.post.default.target", z3.Implies(z3.Not(P("target")), rv(o["target"]) == NINF))
        c.oblige("C19.set_default_options.post.default.feasibility_tol",
                 z3.Implies(z3.Not(P("feasibility_tol")), rv(o["feasibility_tol"]) == realval(float(np.sqrt(np.finfo(float).eps)))))
        from pyvc.core import tobool
        for k in ("disp", "scale", "store_history", "debug"):
            c.oblige(f"C19.set_default_options.post.default.{k}", z3.Implies(z3.Not(P(k)), z3.Not(tobool(o[k]))))
        for k in ("filter_size", "history_size"):
            c.oblige(f"C19.set_default_options.post.default.{k}", z3.Implies(z3.Not(P(k)), it(o[k]) == sys.maxsize))
        # unknown names: exactly one RuntimeWarning, nothing else
        warns = [e for e in c.log if e[0] == "warn"]
        nw = len(warns)
        c.oblige("C19.set_default_options.post.unknown_key_warns_once",
                 z3.And(z3.Implies(has_unknown, z3.BoolVal(nw == 1)), z3.Implies(z3.Not(has_unknown), z3.BoolVal(nw == 0))))
        c.oblige("C19.set_default_options.post.warning_is_RuntimeWarning", z3.BoolVal(all(w[2] is RuntimeWarning for w in warns)))


class SetDefaultConstants(Unit):
    name = "C19.set_default_constants"
    props = ("C19", "C18")          # post.valid is the `requires` of every TrustRegion method that C18 is proved under
    default_props = ("C19",)
    fmodel = "REAL"
    functions = [("cobyqa.main", "_set_default_constants")]
    replay = ("contracts.replays", "set_default_constants")
    max_paths = 400000
    parallel = True

    def run(self, c):
        m = main_shadow()
        kw = {}
        P, V = {}, {}
        for k, (kind, *_r) in CONST_DOMAINS.items():
            p = z3.Bool(c.fresh_name("has_" + k))
            c.named["has_" + k] = SB(p)
            v = fresh_value(c, k, "b" if kind == "b" else "f")
            P[k], V[k] = p, v
            kw[k] = Maybe(p, v)
        # one optional unknown name (a concrete fork of the harness: absent / present)
        unknown = bool(SB(z3.Bool(c.fresh_name("has_unknown"))))
        if unknown:
            kw[UNKNOWN] = 1.0
        bad = z3.Or(*[z3.And(P[k], z3.Not(in_domain(k, V[k]))) for k in CONST_DOMAINS if CONST_DOMAINS[k][0] != "b"],
                    *[z3.And(P[a], P[b], z3.Not(relation_holds(V, (a, op, b)))) for a, op, b in CONST_RELATIONS])
        kind, res = call_expecting(c, "C19.set_default_constants", lambda: m._set_default_constants(**kw), (ValueError,))
        if kind == "exc":
            c.oblige("C19.set_default_constants.raises_only_if_bad", bad)
            return
        c.oblige("C19.set_default_constants.returns_only_if_good", z3.Not(bad),
                 note="a constant outside its documented domain / order was accepted")
        if not isinstance(res, SDict):
            raise Unsupported("expected the completed constants dict")
        c.oblige_all([(f"C19.set_default_constants.post.present.{k}", res.present(k)) for k in CONST_DOMAINS])
        out = {k: res.value(k) for k in CONST_DOMAINS}
        c.oblige("C19.set_default_constants.post.valid", constants_valid(out), props=["C19", "C18"],
                 note="the completed constants violate the domains / orders the trust-region updates rely on")
        from pyvc.core import tobool
        grp = []
        for k, (kd, *_r) in CONST_DOMAINS.items():
            if kd == "b":
                grp.append((f"C19.set_default_constants.post.supplied_kept.{k}", z3.Implies(P[k], tobool(out[k]) == tobool(V[k]))))
                grp.append((f"C19.set_default_constants.post.default.{k}", z3.Implies(z3.Not(P[k]), tobool(out[k]) == z3.BoolVal(CONST_DEFAULTS[k]))))
            else:
                grp.append((f"C19.set_default_constants.post.supplied_kept.{k}", z3.Implies(P[k], rv(out[k]) == rv(V[k]))))
        c.oblige_all(grp)
        # documented defaults; for coupled pairs the documented derivation from the supplied partner
        pairs = {}
        for a, op, b in CONST_RELATIONS:
            pairs[a] = b
            pairs[b] = a

        def dflt(k):
            return realval(float(CONST_DEFAULTS[k]))

        def mn(x, y):
            return z3.If(x <= y, x, y)

        def mx(x, y):
            return z3.If(x >= y, x, y)
        derive = {
            "decrease_radius_threshold": lambda: mn(dflt("decrease_radius_threshold"), 0.5 * (1 + rv(V["increase_radius_factor"]))),
            "increase_radius_factor": lambda: mx(dflt("increase_radius_factor"), 2 * rv(V["decrease_radius_threshold"])),
            "moderate_resolution_threshold": lambda: mn(dflt("moderate_resolution_threshold"), rv(V["large_resolution_threshold"])),
            "large_resolution_threshold": lambda: mx(dflt("large_resolution_threshold"), rv(V["moderate_resolution_threshold"])),
            "high_ratio": lambda: mx(dflt("high_ratio"), rv(V["low_ratio"])),
            "low_ratio": lambda: mn(dflt("low_ratio"), rv(V["high_ratio"])),
            "penalty_increase_factor": lambda: mx(dflt("penalty_increase_factor"), rv(V["penalty_increase_threshold"])),
            "penalty_increase_threshold": lambda: mn(dflt("penalty_increase_threshold"), rv(V["penalty_increase_factor"])),
        }
        dgrp = []
        for k, (kd, *_r) in CONST_DOMAINS.items():
            if kd == "b":
                continue
            if k in pairs:
                exp = z3.If(P[pairs[k]], derive[k](), dflt(k))
            else:
                exp = dflt(k)
            dgrp.append((f"C19.set_default_constants.post.default.{k}", z3.Implies(z3.Not(P[k]), rv(out[k]) == exp)))
        c.oblige_all(dgrp)
        warns = [e for e in c.log if e[0] == "warn"]
        c.oblige("C19.set_default_constants.post.unknown_key_warns_once", z3.BoolVal(len(warns) == (1 if unknown else 0)))
        c.oblige("C19.set_default_constants.post.warning_is_RuntimeWarning", z3.BoolVal(all(w[2] is RuntimeWarning for w in warns)))


UNITS = [SetDefaultOptions(), SetDefaultConstants()]
