"""BOUNDED stand-ins for the numerical loops of the five subproblem solvers (C15 admissible steps, C16 never worse).

The truncated-conjugate-gradient loops (projections through QR factors, rotations, active-set updates) are outside the reach of the
unbounded prover within this effort; as the brief allows, the real functions are run natively on seeded random inputs and the clauses
of C15/C16 are evaluated as run-time contracts.  These checks are labelled bounded and never counted as proved.
Bound: VERIF_SEED-seeded cases (quick 400 / thorough 6000 per solver), n in 1..6, data magnitudes over 12 decades, and the
degeneracies listed in the property (zero gradient, bounds active at the origin, infinite bounds, redundant / rank-deficient
constraints, indefinite and zero Hessians, tiny to huge radii, improve_tcg on/off)."""
import os
import z3
import numpy as np
from pyvc.unit import Unit
from pyvc.transform import ensure_repo_on_path


def rng_for(name):
    seed = int(os.environ.get("VERIF_SEED", "0") or 0)
    return np.random.default_rng([seed, sum(map(ord, name))])


def ncases():
    return 30000 if os.environ.get("VERIF_TIER") == "thorough" else 3000


def gen_int(rng, with_constraints):
    """Small-integer instances: exact ties, active constraints hit at non-zero steps, rank deficiency are frequent here."""
    n = int(rng.integers(2, 5))
    grad = rng.integers(-4, 5, n).astype(float)
    A = rng.integers(-2, 3, (n, n)).astype(float)
    H = [np.zeros((n, n)), A + A.T, A @ A.T, -(A @ A.T)][int(rng.integers(0, 4))]
    xl = -rng.integers(0, 4, n).astype(float)
    xu = rng.integers(0, 4, n).astype(float)
    xl[rng.random(n) < 0.3] = -np.inf
    xu[rng.random(n) < 0.3] = np.inf
    d = dict(n=n, grad=grad, H=H, xl=xl, xu=xu, delta=float(rng.integers(1, 4)), improve_tcg=bool(rng.random() < 0.8))
    if with_constraints:
        mub, meq = int(rng.integers(0, 4)), int(rng.integers(0, 2))
        d.update(aub=rng.integers(-2, 3, (mub, n)).astype(float), bub=rng.integers(0, 4, mub).astype(float),
                 aeq=rng.integers(-2, 3, (meq, n)).astype(float), beq=rng.integers(-2, 3, meq).astype(float))
    return d


def gen(rng, with_constraints):
    if rng.random() < 0.5:
        return gen_int(rng, with_constraints)
    n = int(rng.integers(1, 7))
    mag = 10.0 ** rng.uniform(-6, 6)
    grad = rng.standard_normal(n) * mag * (rng.random() > 0.08)
    kind = rng.integers(0, 4)
    if kind == 0:
        H = np.zeros((n, n))
    else:
        A = rng.standard_normal((n, n))
        H = (A + A.T) * mag if kind == 1 else (A @ A.T) * mag if kind == 2 else -(A @ A.T) * mag
    xl = -np.abs(rng.standard_normal(n)) * 10.0 ** rng.uniform(-3, 3)
    xu = np.abs(rng.standard_normal(n)) * 10.0 ** rng.uniform(-3, 3)
    xl[rng.random(n) < 0.2] = 0.0          # bounds active at the origin
    xu[rng.random(n) < 0.2] = 0.0
    xl[rng.random(n) < 0.2] = -np.inf
    xu[rng.random(n) < 0.2] = np.inf
    delta = float(10.0 ** rng.uniform(-6, 6))
    d = dict(n=n, grad=grad, H=H, xl=xl, xu=xu, delta=delta, improve_tcg=bool(rng.random() < 0.7))
    if with_constraints:
        mub, meq = int(rng.integers(0, 4)), int(rng.integers(0, 3))
        aub = rng.standard_normal((mub, n))
        if mub >= 2 and rng.random() < 0.4:
            aub[1] = aub[0] * rng.uniform(0.5, 2)          # redundant rows
        aeq = rng.standard_normal((meq, n))
        if meq >= 2 and rng.random() < 0.4:
            aeq[1] = aeq[0]
        bub = np.abs(rng.standard_normal(mub)) * 10.0 ** rng.uniform(-3, 3)
        bub[rng.random(mub) < 0.3] = 0.0
        d.update(aub=aub, bub=bub, aeq=aeq, beq=rng.standard_normal(meq))
    return d


def tolstep(delta):
    return delta * (1.0 + 1e-9) + 1e-300


def in_bounds(step, xl, xu):
    return bool(np.all(np.minimum(xl, 0.0) <= step) and np.all(step <= np.maximum(xu, 0.0)))


class Bounded(Unit):
    fmodel = "ORDER"
    props = ("C15", "C16")
    solver = None

    @property
    def bounded(self):
        return f"native run-time contracts on {ncases()} seeded random cases (n in 1..6, 12 decades, degeneracies of the property)"

    def case(self, rng):
        raise NotImplementedError

    def run(self, c):
        ensure_repo_on_path()
        rng = rng_for(self.name)
        fails = {}
        N = ncases()
        with np.errstate(all="ignore"):
            for k in range(N):
                for nm, ok, info in self.case(rng):
                    if not ok and nm not in fails:
                        fails[nm] = f"case {k}: {info}"
                    fails.setdefault("__seen__" + nm, None)
        names = sorted(k[8:] for k in fails if k.startswith("__seen__"))
        for nm in names:
            c.oblige(f"{nm}[{N} cases]", z3.BoolVal(nm not in fails), kind="bounded", note=fails.get(nm))


class TangentialBounded(Bounded):
    name = "subsolvers.bounded_tangential"
    functions = [("cobyqa.subsolvers.optim", "tangential_byrd_omojokun")]

    def case(self, rng):
        from cobyqa.subsolvers import tangential_byrd_omojokun
        d = gen(rng, False)
        hp = lambda v: d["H"] @ v
        s = tangential_byrd_omojokun(d["grad"], hp, d["xl"], d["xu"], d["delta"], False, improve_tcg=d["improve_tcg"])
        q = d["grad"] @ s + 0.5 * s @ hp(s)
        scale = np.abs(d["grad"]) @ np.abs(s) + 0.5 * np.abs(s) @ np.abs(d["H"]) @ np.abs(s)
        info = {k: (v.tolist() if isinstance(v, np.ndarray) else v) for k, v in d.items()}
        yield "C15.tangential.step_within_bounds", in_bounds(s, d["xl"], d["xu"]) and not np.any(np.isnan(s)), info
        yield "C15.tangential.norm_within_radius", np.linalg.norm(s) <= tolstep(d["delta"]), info
        yield "C16.tangential.model_not_increased", q <= 1e-12 * scale + 1e-300, info


class ConstrainedTangentialBounded(Bounded):
    name = "subsolvers.bounded_constrained_tangential"
    functions = [("cobyqa.subsolvers.optim", "constrained_tangential_byrd_omojokun")]

    def case(self, rng):
        from cobyqa.subsolvers import constrained_tangential_byrd_omojokun
        d = gen(rng, True)
        hp = lambda v: d["H"] @ v
        s = constrained_tangential_byrd_omojokun(d["grad"], hp, d["xl"], d["xu"], d["aub"], d["bub"], d["aeq"], d["delta"], False,
                                                 improve_tcg=d["improve_tcg"])
        q = d["grad"] @ s + 0.5 * s @ hp(s)
        scale = np.abs(d["grad"]) @ np.abs(s) + 0.5 * np.abs(s) @ np.abs(d["H"]) @ np.abs(s)
        info = {k: (v.tolist() if isinstance(v, np.ndarray) else v) for k, v in d.items()}
        ns = np.linalg.norm(s)
        # "up to rounding": relative to the size of the data of each row (|a_i| |s| + |b_i|), not to the possibly cancelling a_i.s
        tol_ub = 1e-9 * (np.linalg.norm(d["aub"], axis=1) * ns + np.abs(d["bub"])) + 1e-300 if d["aub"].size else 0.0
        tol_eq = 1e-8 * (np.abs(d["aeq"]) @ np.abs(s)) + 1e-300 + 1e-9 * ns * np.linalg.norm(d["aeq"], axis=1) if d["aeq"].size else 0.0
        yield "C15.constrained_tangential.step_within_bounds", in_bounds(s, d["xl"], d["xu"]) and not np.any(np.isnan(s)), info
        yield "C15.constrained_tangential.norm_within_radius", ns <= tolstep(d["delta"]), info
        yield "C15.constrained_tangential.inequalities_kept", bool(np.all(d["aub"] @ s <= d["bub"] + tol_ub)), info
        yield "C15.constrained_tangential.equalities_null_space", bool(np.all(np.abs(d["aeq"] @ s) <= tol_eq)), info
        yield "C16.constrained_tangential.model_not_increased", q <= 1e-12 * scale + 1e-300, info


class NormalBounded(Bounded):
    name = "subsolvers.bounded_normal"
    functions = [("cobyqa.subsolvers.optim", "normal_byrd_omojokun")]

    def case(self, rng):
        from cobyqa.subsolvers import normal_byrd_omojokun
        d = gen(rng, True)
        bub = d["bub"] * rng.choice([-1.0, 1.0], size=d["bub"].size)      # the origin may violate the linearised constraints
        s = normal_byrd_omojokun(d["aub"], bub, d["aeq"], d["beq"], d["xl"], d["xu"], d["delta"], False, improve_tcg=d["improve_tcg"])
        viol = lambda x: np.sum(np.maximum(d["aub"] @ x - bub, 0.0) ** 2) + np.sum((d["aeq"] @ x - d["beq"]) ** 2)
        v0, v1 = viol(np.zeros(d["n"])), viol(s)
        info = {k: (v.tolist() if isinstance(v, np.ndarray) else v) for k, v in d.items()}
        info["bub"] = bub.tolist()
        yield "C15.normal.step_within_bounds", in_bounds(s, d["xl"], d["xu"]) and not np.any(np.isnan(s)), info
        yield "C15.normal.norm_within_radius", np.linalg.norm(s) <= tolstep(d["delta"]), info
        yield "C16.normal.violation_not_increased", v1 <= v0 * (1 + 1e-10) + 1e-300, info


class GeometryBounded(Bounded):
    name = "subsolvers.bounded_geometry"
    functions = [("cobyqa.subsolvers.geometry", "cauchy_geometry"), ("cobyqa.subsolvers.geometry", "spider_geometry"),
                 ("cobyqa.subsolvers.geometry", "_cauchy_geom")]

    def case(self, rng):
        from cobyqa.subsolvers import cauchy_geometry, spider_geometry
        d = gen(rng, False)
        const = float(rng.standard_normal() * (rng.random() > 0.3))
        H = d["H"]
        curv = lambda v: v @ H @ v
        q = lambda s: const + d["grad"] @ s + 0.5 * curv(s)
        info = {k: (v.tolist() if isinstance(v, np.ndarray) else v) for k, v in d.items()}
        info["const"] = const
        s = cauchy_geometry(const, d["grad"], curv, d["xl"], d["xu"], d["delta"], False)
        sc = abs(const) + np.abs(d["grad"]) @ np.abs(s) + 0.5 * np.abs(s) @ np.abs(H) @ np.abs(s)
        yield "C15.cauchy_geometry.step_within_bounds", in_bounds(s, d["xl"], d["xu"]) and not np.any(np.isnan(s)), info
        yield "C15.cauchy_geometry.norm_within_radius", np.linalg.norm(s) <= tolstep(d["delta"]), info
        yield "C16.cauchy_geometry.magnitude_not_decreased", abs(q(s)) >= abs(const) - 1e-12 * sc, info
        xlc, xuc = np.minimum(d["xl"], 0.0), np.maximum(d["xu"], 0.0)
        up = np.any((d["grad"] > 0) & (xuc > 0)) or np.any((d["grad"] < 0) & (xlc < 0))        # feasible direction increasing q
        down = np.any((d["grad"] < 0) & (xuc > 0)) or np.any((d["grad"] > 0) & (xlc < 0))      # feasible direction decreasing q
        # a feasible first-order direction improving |q|: increase q if const >= 0, decrease it if const <= 0
        ascent = (const >= 0 and up) or (const <= 0 and down)
        fits = np.linalg.norm(np.where(np.isfinite(xlc), xlc, np.inf)) <= d["delta"] and np.linalg.norm(np.where(np.isfinite(xuc), xuc, np.inf)) <= d["delta"]
        if ascent and fits and not np.any(H):
            yield "C16.cauchy_geometry.strict_increase_with_feasible_direction", abs(q(s)) > abs(const), info
        npt = int(rng.integers(1, 2 * d["n"] + 2))
        xpt = rng.standard_normal((d["n"], npt)) * 10.0 ** rng.uniform(-3, 3)
        s2 = spider_geometry(const, d["grad"], curv, xpt, d["xl"], d["xu"], d["delta"], False)
        sc2 = abs(const) + np.abs(d["grad"]) @ np.abs(s2) + 0.5 * np.abs(s2) @ np.abs(H) @ np.abs(s2)
        yield "C15.spider_geometry.step_within_bounds", in_bounds(s2, d["xl"], d["xu"]) and not np.any(np.isnan(s2)), info
        yield "C15.spider_geometry.norm_within_radius", np.linalg.norm(s2) <= tolstep(d["delta"]), info
        yield "C16.spider_geometry.magnitude_not_decreased", abs(q(s2)) >= abs(const) - 1e-9 * sc2, info


UNITS = [TangentialBounded(), ConstrainedTangentialBounded(), NormalBounded(), GeometryBounded()]
