"""C12 (Mode B, bounded): the quadratic models interpolate the recorded values after every update, shift and reset.

The REAL Models.update_interpolation / shift_x_base / reset_models and Quadratic.__init__ / __call__ / update /
shift_x_base / _get_model and build_system are executed on exact symbolic arrays (pyvc.modeb) at fixed small shapes;
Quadratic.solve_systems is replaced by its assumed contract SOLVE.  Every obligation is a polynomial identity decided by
normal form in QQ(symbols); they are *bounded* checks (dimension), never counted as proof.

Pre-states are as general as the property allows: a model "in an arbitrary interpolating state" is a Quadratic whose
constant, gradient, implicit Hessian and (symmetric) explicit Hessian are all free symbols, and the recorded values are
*defined* as its values at the interpolation points (so INTERP holds by construction and nothing else is assumed).

Generic symbolic new values never give an identically zero residual; the unit C12.modeb.update.zero_residual therefore adds
updates in which the value recorded at the new point IS the model's own prediction for some of the models (values_diff
identically zero, decided exactly by Mode B's np.any), from an arbitrary state and after an ordinary update, followed by a shift.
"""
import os

import numpy as np

from pyvc.unit import Unit
from pyvc import modeb as mb
from pyvc.modeb import Cases, FieldCtx, Shadow, arr

THOROUGH = mb.THOROUGH
FUNCS_COMMON = [("cobyqa.models", "Quadratic.__call__"), ("cobyqa.models", "Quadratic._get_model"),
                ("cobyqa.models", "build_system"), ("cobyqa.models", "Interpolation.point")]


def npts(n):
    """n+1, 2n+1 and (n+1)(n+2)/2 (and everything in between for n <= 2)."""
    lo, hi = n + 1, (n + 1) * (n + 2) // 2
    if n <= 2:
        return list(range(lo, hi + 1))
    return sorted({lo, 2 * n + 1, hi})


# ---- pre-states ---------------------------------------------------------------------------------------
MODEL_TAGS = ("F", "U0", "Q0")        # objective, one inequality model, one equality model


def state_names(n, npt):
    out = []
    for t in MODEL_TAGS:
        out += Shadow.quadratic_state_names(t, n, npt)
    return out


def general_models(sh, F, it, n, npt):
    """Models with fun + 1 cub + 1 ceq, each in an arbitrary state; recorded values := model values (INTERP by construction)."""
    fun = sh.quadratic_state(F, "F", n, npt)
    cub = [sh.quadratic_state(F, "U0", n, npt)]
    ceq = [sh.quadratic_state(F, "Q0", n, npt)]
    pts = [it.point(k) for k in range(npt)]
    fun_val = arr([fun(p, it) for p in pts])
    cub_val = arr([[q(p, it) for q in cub] for p in pts])
    ceq_val = arr([[q(p, it) for q in ceq] for p in pts])
    return sh.models(it, fun_val, cub_val, ceq_val, fun, cub, ceq)


def free_value_names(npt):
    return mb.names_vec("vf", npt) + mb.names_vec("vu", npt) + mb.names_vec("vq", npt)


def free_values(F, npt):
    return F.vec("vf", npt), F.vec("vu", npt).reshape(npt, 1), F.vec("vq", npt).reshape(npt, 1)


def interpolation_residual(F, M):
    """First non-zero residual model_i(x_k) - value_i[k] over all models and points, through the real __call__ / point."""
    it = M.interpolation
    for k in range(M.npt):
        x = it.point(k)
        checks = [("fun", M._fun, M.fun_val[k])]
        checks += [(f"cub[{i}]", M._cub[i], M.cub_val[k, i]) for i in range(M.m_nonlinear_ub)]
        checks += [(f"ceq[{i}]", M._ceq[i], M.ceq_val[k, i]) for i in range(M.m_nonlinear_eq)]
        for lab, q, val in checks:
            r = q(x, it) - val
            ok, note = mb.all_zero(F, r)
            if not ok:
                return False, f"{lab} model at interpolation point {k}: model - recorded value = {mb.short(F.lift(r))}"
    return True, None


def gtag(symbolic):
    return "symbolic" if symbolic else "rational"


# ---- fresh / reset ------------------------------------------------------------------------------------------
def case_fresh(emit, n, npt, symbolic):
    tag = f"[n={n},npt={npt},geom={gtag(symbolic)}]"
    F = FieldCtx(mb.geometry_names(n, npt, symbolic) + mb.names_vec("v", npt))
    sh = Shadow()
    xb, X = mb.geometry(F, f"C12.fresh{tag}", n, npt, symbolic)
    it = sh.interpolation(xb, X)
    vals = F.vec("v", npt)
    q = sh.m.Quadratic(it, vals, False)
    ok, note = True, None
    for k in range(npt):
        r = q(it.point(k), it) - vals[k]
        ok, note = mb.all_zero(F, r)
        if not ok:
            note = f"fresh model at point {k}: model - value = {mb.short(F.lift(r))}"
            break
    if ok:
        ok, note = mb.same(F, q._e_hess, np.zeros((n, n), dtype=object))
        note = note and "explicit Hessian of a fresh model is not zero: " + note
    emit("C12.fresh_interpolates" + tag, ok, note)


def case_reset(emit, n, npt, symbolic):
    tag = f"[n={n},npt={npt},geom={gtag(symbolic)}]"
    F = FieldCtx(mb.geometry_names(n, npt, symbolic) + state_names(n, npt) + free_value_names(npt))
    sh = Shadow()
    xb, X = mb.geometry(F, f"C12.reset{tag}", n, npt, symbolic)
    it = sh.interpolation(xb, X)
    # models in an arbitrary (even non-interpolating) state, recorded values free
    fv, uv, qv = free_values(F, npt)
    M = sh.models(it, fv, uv, qv, sh.quadratic_state(F, "F", n, npt), [sh.quadratic_state(F, "U0", n, npt)],
                  [sh.quadratic_state(F, "Q0", n, npt)])
    old = (M._fun, M._cub[0], M._ceq[0])
    M.reset_models()
    ok, note = interpolation_residual(F, M)
    if ok and (M._fun is old[0] or M._cub[0] is old[1] or M._ceq[0] is old[2]):
        ok, note = False, "reset_models left one of the models untouched"
    if ok:
        ok, note = mb.same(F, M.fun_val, fv)
        if ok:
            ok, note = mb.same(F, M.interpolation.xpt, X)
        note = note and "reset_models changed recorded values / points: " + note
    emit("C12.reset_interpolates" + tag, ok, note)


# ---- update -----------------------------------------------------------------------------------------------------
def case_update(emit, n, npt, k_new, symbolic, sym_xnew, ill=False):
    tag0 = f"[n={n},npt={npt},k_new={k_new},geom={gtag(symbolic)}"
    tag = tag0 + f",x_new={'symbolic' if sym_xnew else 'rational'}]"
    names = mb.geometry_names(n, npt, symbolic) + state_names(n, npt) + ["nf", "nu", "nq"]
    if sym_xnew:
        names += mb.names_vec("xn", n)
    F = FieldCtx(names)
    sh = Shadow(ill=ill)
    label = f"C12.update[n={n},npt={npt},geom={gtag(symbolic)}]"
    xb, X = mb.geometry(F, label, n, npt, symbolic)
    it = sh.interpolation(xb.copy(), X.copy())
    M = general_models(sh, F, it, n, npt)
    x_new = F.vec("xn", n) if sym_xnew else mb.lift_array(F, mb.rational_vector(label + f"k{k_new}", n))
    nf, nu, nq = F.sym("nf"), F.sym("nu"), F.sym("nq")
    old_vals = (M.fun_val.copy(), M.cub_val.copy(), M.ceq_val.copy())
    models = {"fun": M._fun, "cub[0]": M._cub[0], "ceq[0]": M._ceq[0]}
    ret = M.update_interpolation(k_new, x_new.copy(), nf, arr([nu]), arr([nq]))

    # bookkeeping of values and points (what INTERP is stated about)
    exp_f, exp_u, exp_q = old_vals
    exp_f[k_new], exp_u[k_new, 0], exp_q[k_new, 0] = nf, nu, nq
    exp_X = X.copy()
    exp_X[:, k_new] = x_new - xb
    ok, note = mb.same(F, M.fun_val, exp_f)
    for got, exp, lab in ((M.cub_val, exp_u, "cub_val"), (M.ceq_val, exp_q, "ceq_val"), (it.xpt, exp_X, "xpt"),
                          (it.x_base, xb, "x_base"), (it.point(k_new), x_new, "point(k_new)")):
        if ok:
            ok, note = mb.same(F, got, exp)
            note = note and f"{lab}: {note}"
    if not ill:
        emit("C12.update_records_values_and_point" + tag, ok, note)
        ok, note = interpolation_residual(F, M)
        emit("C12.update_preserves_interpolation" + tag, ok, note)
        return
    # D8 scenario: the objective's solve reports ill_conditioned=True (the solution handed back is still the exact one);
    # every constraint model must nevertheless receive its update
    counts = {lab: sh.update_log.count(id(q)) for lab, q in models.items()}
    skipped = [lab for lab, c_ in counts.items() if c_ != 1]
    res = []
    for lab, q, val in (("cub[0]", M._cub[0], M.cub_val[k_new, 0]), ("ceq[0]", M._ceq[0], M.ceq_val[k_new, 0])):
        r = q(it.point(k_new), it) - val
        if not mb.all_zero(F, r)[0]:
            res.append(f"{lab} model(x_new) - recorded {lab[:3]}_val[k_new] = {mb.short(F.lift(r), 120)}")
    good = not skipped and not res
    note = None
    if not good:
        note = (f"witness: solve_systems reported ill_conditioned=True for the objective's update (returned {ret!r}); "
                f"Quadratic.update calls per model = {counts}; not updated: {skipped}; " + "; ".join(res))
    emit("C12.update_all_models_even_if_ill_conditioned" + tag0 + "]", good, note)


def fresh_models(sh, F, it, npt):
    """Models with fun + 1 cub + 1 ceq built by the REAL Quadratic.__init__ from free symbolic values (least-norm interpolants)."""
    fv, uv, qv = free_values(F, npt)
    fun = sh.m.Quadratic(it, fv, False)
    cub = [sh.m.Quadratic(it, uv[:, 0], False)]
    ceq = [sh.m.Quadratic(it, qv[:, 0], False)]
    return sh.models(it, fv, uv, qv, fun, cub, ceq)


def case_update_zero_residual(emit, n, npt, k_new, zero, symbolic, sym_xnew, history, sym_base=True):
    """update_interpolation in which, for every model named in `zero` ('fun', 'cub', 'ceq'), the value recorded at x_new is
    that model's OWN prediction at x_new (its values_diff is identically zero) while the other new values stay free symbols;
    npt > n+1, and the replaced point carries a non-zero implicit Hessian weight in every model.

    history=False: pre-state = arbitrary interpolating state (general_models; the implicit weights are free symbols);
    history=True:  pre-state = fresh least-norm models of free symbolic values followed by one ORDINARY update (generic new
                   values) of another point, so that a weight has already been forwarded to the explicit Hessian.
    Afterwards the base point is shifted (new base symbolic, or generic rational if not sym_base).  INTERP is required after
    the update and after the shift.  Rational points are sampled so that the interpolation set stays poised."""
    pre = "fresh+ordinary_update" if history else "arbitrary_state"
    tag = (f"[n={n},npt={npt},k_new={k_new},zero={'+'.join(zero)},pre={pre},geom={gtag(symbolic)},"
           f"x_new={'symbolic' if sym_xnew else 'rational'},new_base={'symbolic' if sym_base else 'rational'}]")
    names = mb.geometry_names(n, npt, symbolic) + (free_value_names(npt) + ["pf", "pu", "pq"] if history else state_names(n, npt))
    names += ["nf", "nu", "nq"] + (mb.names_vec("nb", n) if sym_base else []) + (mb.names_vec("xn", n) if sym_xnew else [])
    F = FieldCtx(names)
    sh = Shadow()
    label = f"C12.update0[n={n},npt={npt},geom={gtag(symbolic)}]"
    xb, X = mb.geometry(F, label, n, npt, symbolic)
    it = sh.interpolation(xb.copy(), X.copy())
    if history:
        M = fresh_models(sh, F, it, npt)
        k_prev = (k_new + 1) % npt
        x_prev = mb.lift_array(F, mb.rational_vector(label + f"prev{k_prev}", n) if symbolic
                               else mb.rational_new_point(label + f"prev{k_prev}", it.x_base, it.xpt, k_prev))
        M.update_interpolation(k_prev, x_prev, F.sym("pf"), arr([F.sym("pu")]), arr([F.sym("pq")]))
        ok, note = interpolation_residual(F, M)
        if not ok:
            raise mb.Unsupported("zero-residual scenario: the preceding ordinary update already broke interpolation: " + note)
    else:
        M = general_models(sh, F, it, n, npt)
    if sym_xnew:
        x_new = F.vec("xn", n)
    elif symbolic:
        x_new = mb.lift_array(F, mb.rational_vector(label + f"k{k_new}", n))
    else:
        x_new = mb.lift_array(F, mb.rational_new_point(label + f"k{k_new}", it.x_base, it.xpt, k_new))
    models = {"fun": M._fun, "cub": M._cub[0], "ceq": M._ceq[0]}
    # the scenario must not be vacuous: the replaced point carries an implicit weight in every model with a zero residual
    for lab in zero:
        if mb.all_zero(F, models[lab]._i_hess[k_new])[0]:
            raise mb.Unsupported(f"zero-residual scenario vacuous: implicit weight {k_new} of the {lab} model is identically zero")
    new = {"fun": F.sym("nf"), "cub": F.sym("nu"), "ceq": F.sym("nq")}
    pred = {"fun": M.fun(x_new), "cub": M.cub(x_new)[0], "ceq": M.ceq(x_new)[0]}
    for lab in zero:
        new[lab] = pred[lab]                       # recorded value := the model's own prediction (residual identically 0)
    old_vals = (M.fun_val.copy(), M.cub_val.copy(), M.ceq_val.copy())
    M.update_interpolation(k_new, x_new.copy(), new["fun"], arr([new["cub"]]), arr([new["ceq"]]))
    exp_f, exp_u, exp_q = old_vals
    exp_f[k_new], exp_u[k_new, 0], exp_q[k_new, 0] = new["fun"], new["cub"], new["ceq"]
    ok, note = mb.same(F, M.fun_val, exp_f)
    for got, exp, lab in ((M.cub_val, exp_u, "cub_val"), (M.ceq_val, exp_q, "ceq_val"), (it.point(k_new), x_new, "point(k_new)")):
        if ok:
            ok, note = mb.same(F, got, exp)
            note = note and f"{lab}: {note}"
    if ok:
        ok, note = interpolation_residual(F, M)
        note = note and f"after an update whose residual is identically zero for {'+'.join(zero)}: " + note
    emit("C12.update_zero_residual_preserves_interpolation" + tag, ok, note)
    new_base = F.vec("nb", n) if sym_base else mb.lift_array(F, mb.rational_vector(label + "newbase", n))
    M.shift_x_base(new_base.copy(), sh.options())
    ok, note = interpolation_residual(F, M)
    note = note and f"after a zero-residual update ({'+'.join(zero)}) followed by shift_x_base: " + note
    emit("C12.update_zero_residual_then_shift_preserves_interpolation" + tag, ok, note)


# ---- shift -----------------------------------------------------------------------------------------------------------
def case_shift(emit, n, npt, symbolic):
    tag = f"[n={n},npt={npt},geom={gtag(symbolic)}]"
    F = FieldCtx(mb.geometry_names(n, npt, symbolic) + state_names(n, npt) + mb.names_vec("nb", n) + mb.names_vec("x", n))
    sh = Shadow()
    xb, X = mb.geometry(F, f"C12.shift{tag}", n, npt, symbolic)
    it = sh.interpolation(xb.copy(), X.copy())
    M = general_models(sh, F, it, n, npt)
    x = F.vec("x", n)                       # symbolic absolute probe point
    before = [M.fun(x)] + list(M.cub(x)) + list(M.ceq(x))
    pts = [it.point(k) for k in range(npt)]
    vals = (M.fun_val.copy(), M.cub_val.copy(), M.ceq_val.copy())
    new_base = F.vec("nb", n)
    M.shift_x_base(new_base.copy(), sh.options())
    after = [M.fun(x)] + list(M.cub(x)) + list(M.ceq(x))
    ok, note = mb.same(F, arr(after), arr(before))
    note = note and "model function changed by the shift (index 0 = objective, 1 = cub[0], 2 = ceq[0]): " + note
    if ok:
        ok, note = mb.same(F, it.x_base, new_base)
        note = note and "x_base after the shift is not new_x_base: " + note
    if ok:
        for k in range(npt):
            ok, note = mb.same(F, it.point(k), pts[k])
            if not ok:
                note = f"interpolation point {k} moved (absolute coordinates): " + note
                break
    if ok:
        for got, exp in zip((M.fun_val, M.cub_val, M.ceq_val), vals):
            if ok:
                ok, note = mb.same(F, got, exp)
                note = note and "recorded values changed by the shift: " + note
    emit("C12.shift_preserves_function" + tag, ok, note)
    ok, note = interpolation_residual(F, M)
    emit("C12.shift_preserves_interpolation" + tag, ok, note)


# ---- units -------------------------------------------------------------------------------------------------------------
class _ModeB(Unit):
    props = ("C12",)
    fmodel = "REAL"
    assumptions = list(mb.MODEB_ASSUMPTIONS)
    timeout_ms = 5000


class _C12FreshReset(_ModeB):
    functions = FUNCS_COMMON + [("cobyqa.models", "Quadratic.__init__"), ("cobyqa.models", "Models.reset_models")]
    plan = ()

    def run(self, c):
        cs = Cases(c, self)
        for n, p, sym, req in self.plan:
            cs.run(f"C12.fresh[n={n},npt={p},{gtag(sym)}]", lambda e, n=n, p=p, sym=sym: case_fresh(e, n, p, sym), 40, req)
            cs.run(f"C12.reset[n={n},npt={p},{gtag(sym)}]", lambda e, n=n, p=p, sym=sym: case_reset(e, n, p, sym), 40, req)


class C12FreshSym(_C12FreshReset):
    name = "C12.modeb.fresh_reset.symbolic_geometry"
    bounded = ("exact symbolic execution at fixed dimensions n=1 (npt 2,3) and n=2 (npt 3) with FULLY SYMBOLIC geometry (x_base "
               "and all interpolation points are symbols); function values symbolic; for reset the models before the reset are "
               "in an arbitrary symbolic (even non-interpolating) state; 1 objective + 1 inequality + 1 equality model; "
               "n=2,npt=4 only in the thorough tier (the exact inverse of the symbolic 7x7 system alone takes ~100 s); "
               "n=2,npt>=5 and n>=3 with symbolic geometry did not finish in 60 s and are not claimed")
    plan = [(1, 2, True, True), (1, 3, True, True), (2, 3, True, True)] + ([(2, 4, True, False)] if THOROUGH else [])


class C12FreshRat(_C12FreshReset):
    name = "C12.modeb.fresh_reset.rational_geometry"
    bounded = ("exact symbolic execution at fixed dimensions n=2 (npt 3..6), n=3 (npt 4,7,10), n=4 (npt 5,9,15) with a seeded "
               "generic rational geometry (VERIF_SEED; poisedness det W != 0 checked); function values symbolic; for reset the "
               "models before the reset are in an arbitrary symbolic state; 1 objective + 1 inequality + 1 equality model")
    plan = [(2, p, False, True) for p in npts(2)] + [(3, p, False, True) for p in npts(3)] + [(4, p, False, False) for p in (5, 9, 15)]


class _C12Update(_ModeB):
    functions = FUNCS_COMMON + [("cobyqa.models", "Models.update_interpolation"), ("cobyqa.models", "Quadratic.update"),
                                ("cobyqa.models", "Models.fun"), ("cobyqa.models", "Models.cub"), ("cobyqa.models", "Models.ceq")]
    plan = ()

    def run(self, c):
        cs = Cases(c, self)
        for n, p, ks, sym, symx, req in self.plan:
            for k in ks:
                cs.run(f"C12.update[n={n},npt={p},k_new={k},{gtag(sym)},x_new={'sym' if symx else 'rat'}]",
                       lambda e, n=n, p=p, k=k, sym=sym, symx=symx: case_update(e, n, p, k, sym, symx), 25, req)


PRE = ("pre-state: objective + 1 inequality + 1 equality model, each with symbolic constant, gradient, implicit and explicit "
       "Hessian, recorded values defined as the model values (arbitrary interpolating state); new function values symbolic; ")


class C12UpdateN1(_C12Update):
    name = "C12.modeb.update.n1"
    bounded = ("exact symbolic execution, n=1, npt in {2,3}, every k_new; " + PRE +
               "geometry FULLY SYMBOLIC (x_base, all points, x_new are symbols)")
    plan = [(1, 2, range(2), True, True, True), (1, 3, range(3), True, True, True)]


class C12UpdateN2(_C12Update):
    name = "C12.modeb.update.n2"
    bounded = ("exact symbolic execution, n=2, npt in {3,4,5,6}, every k_new; " + PRE +
               "seeded generic rational geometry (VERIF_SEED) for x_base and the old points, x_new SYMBOLIC")
    plan = [(2, p, range(p), False, True, True) for p in npts(2)]


class C12UpdateN2Sym(_C12Update):
    name = "C12.modeb.update.n2.symbolic_geometry"
    bounded = ("exact symbolic execution, n=2, npt=3, every k_new; " + PRE + "geometry FULLY SYMBOLIC (x_base, all points, x_new "
               "are symbols); npt=4 with symbolic geometry did not finish in 150 s and is not claimed")
    plan = [(2, 3, range(3), True, True, True)]


class C12UpdateN3(_C12Update):
    name = "C12.modeb.update.n3.npt4_7"
    bounded = ("exact symbolic execution, n=3, npt in {4,7}; " + PRE +
               "seeded generic rational geometry (VERIF_SEED); x_new SYMBOLIC for npt=4 (every k_new) and npt=7 (k_new 0,6); "
               "x_new generic rational for the remaining k_new of npt=7 (thorough tier: symbolic for every k_new)")
    plan = [(3, 4, range(4), False, True, True), (3, 7, [0, 6], False, True, False),
            (3, 7, range(1, 6), False, THOROUGH, False)]


class C12UpdateN3Big(_C12Update):
    name = "C12.modeb.update.n3.npt10"
    bounded = ("exact symbolic execution, n=3, npt=10; " + PRE +
               "seeded generic rational geometry (VERIF_SEED); x_new SYMBOLIC for k_new 0 and 9, generic rational x_new for "
               "k_new 1..8 (thorough tier: symbolic for every k_new)")
    plan = [(3, 10, [0, 9], False, True, False), (3, 10, range(1, 9), False, THOROUGH, False)]


class C12UpdateZeroResidual(_ModeB):
    """An update whose residual is identically zero for some of the models must still move the implicit Hessian weight of
    the replaced point to the explicit Hessian (otherwise the weight would silently refer to the new point)."""
    name = "C12.modeb.update.zero_residual"
    functions = _C12Update.functions + [("cobyqa.models", "Models.shift_x_base"), ("cobyqa.models", "Quadratic.shift_x_base"),
                                        ("cobyqa.models", "Quadratic.__init__")]
    bounded = ("exact symbolic execution of update_interpolation followed by shift_x_base with npt > n+1, in "
               "which the value recorded at x_new for one, two or all three of the models (objective / inequality / equality) is "
               "DEFINED as that model's own prediction at x_new, so that its values_diff is identically zero, the other new "
               "values being free symbols; the replaced point carries a non-zero implicit Hessian weight (checked). "
               "(a) pre-state 'arbitrary_state': " + PRE + "n=1, npt=3 (every k_new) with FULLY SYMBOLIC geometry, x_new and new "
               "base; n=2, npt=5 (every k_new) and npt=6 (k_new 0,5) with seeded generic rational geometry and SYMBOLIC x_new (new "
               "base symbolic for npt=5, k_new=0, generic rational otherwise); n=3, npt=7 (k_new 0,6) with seeded generic rational "
               "geometry, x_new and new base.  (b) pre-state 'fresh+ordinary_update': models built by the real Quadratic.__init__ "
               "from free symbolic values, then one ordinary update (free symbolic new values, generic rational point) of another "
               "index, then the zero-residual update and a shift to a symbolic new base: n=1, npt=3 (every k_new) and n=2, npt=5 (k_new "
               "0,2,4), seeded generic rational geometry and x_new chosen so that the set stays poised (FULLY SYMBOLIC geometry "
               "with two successive solves did not finish in 25 s and is not claimed)")
    ZERO = [("fun",), ("cub",), ("ceq",), ("fun", "ceq"), ("fun", "cub", "ceq")]
    # (n, npt, k_news, symbolic geometry, symbolic x_new, history, symbolic new base, required)
    plan = [(1, 3, range(3), True, True, False, True, True),
            (2, 5, [0], False, True, False, True, True), (2, 5, range(1, 5), False, True, False, False, True),
            (1, 3, range(3), False, False, True, True, True),
            (2, 5, [0, 2, 4], False, False, True, True, True),
            (2, 6, [0, 5], False, True, False, False, False), (3, 7, [0, 6], False, False, False, False, False)]

    def run(self, c):
        cs = Cases(c, self)
        i = 0
        for n, p, ks, sym, symx, hist, symb, req in self.plan:
            for k in ks:
                zero = self.ZERO[i % len(self.ZERO)]
                i += 1
                cs.run(f"C12.update0[n={n},npt={p},k_new={k},zero={'+'.join(zero)},{'hist' if hist else 'state'},{gtag(sym)}]",
                       lambda e, n=n, p=p, k=k, zero=zero, sym=sym, symx=symx, hist=hist, symb=symb:
                       case_update_zero_residual(e, n, p, k, zero, sym, symx, hist, symb), 25, req)


class C12UpdateIll(_ModeB):
    """D8: `ill_conditioned = ill_conditioned or self._cub[i].update(...)` must not skip the update."""
    name = "C12.modeb.update_ill_conditioned"
    functions = _C12Update.functions
    replay = ("contracts.replays_modeb", "d8_update_skipped")
    bounded = ("exact symbolic execution, (n,npt) in {(1,3),(2,5),(3,7)}, k_new in {0, npt-1}; " + PRE +
               "seeded generic rational geometry and x_new; the SOLVE stub returns the exact solution but reports "
               "ill_conditioned=True for every solve (so the objective's update returns True)")
    assumptions = list(mb.MODEB_ASSUMPTIONS) + [
        "ILL: for this unit solve_systems reports ill_conditioned=True while still returning the exact solution; the "
        "obligation only needs that every model receives its update call, which is independent of the solution returned"]

    def run(self, c):
        cs = Cases(c, self)
        for n, p in ((1, 3), (2, 5), (3, 7)):
            for k in (0, p - 1):
                cs.run(f"C12.update_ill[n={n},npt={p},k_new={k}]",
                       lambda e, n=n, p=p, k=k: case_update(e, n, p, k, False, False, ill=True), 20, n <= 2)


class _C12Shift(_ModeB):
    functions = FUNCS_COMMON + [("cobyqa.models", "Models.shift_x_base"), ("cobyqa.models", "Quadratic.shift_x_base"),
                                ("cobyqa.models", "Quadratic.grad"), ("cobyqa.models", "Quadratic.hess_prod"),
                                ("cobyqa.models", "Models.fun"), ("cobyqa.models", "Models.cub"), ("cobyqa.models", "Models.ceq")]
    plan = ()

    def run(self, c):
        cs = Cases(c, self)
        for n, p, sym, req in self.plan:
            cs.run(f"C12.shift[n={n},npt={p},{gtag(sym)}]", lambda e, n=n, p=p, sym=sym: case_shift(e, n, p, sym), 30, req)


class C12ShiftSmall(_C12Shift):
    name = "C12.modeb.shift.n12"
    bounded = ("exact symbolic execution; " + PRE + "new base point and the probe point x symbolic; geometry FULLY SYMBOLIC; "
               "n=1 (npt 2,3), n=2 (npt 3..6)")
    plan = [(n, p, True, True) for n in (1, 2) for p in npts(n)]


class C12ShiftN3(_C12Shift):
    name = "C12.modeb.shift.n3"
    bounded = ("exact symbolic execution; " + PRE + "new base point and the probe point x symbolic; n=3: geometry FULLY SYMBOLIC "
               "for npt 4 and 7, seeded generic rational geometry for npt 10 (symbolic npt=10 and n=4, npt 5,9,15 in the thorough "
               "tier)")
    plan = [(3, 4, True, True), (3, 7, True, False), (3, 10, False, False)] \
        + ([(3, 10, True, False)] + [(4, p, True, False) for p in (5, 9, 15)] if THOROUGH else [])


UNITS = [C12FreshSym(), C12FreshRat(), C12UpdateN1(), C12UpdateN2(), C12UpdateN2Sym(), C12UpdateN3(), C12UpdateN3Big(), C12UpdateZeroResidual(),
         C12UpdateIll(),
         C12ShiftSmall(), C12ShiftN3()]
