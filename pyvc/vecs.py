"""Dimension-parametric vectors ("Mode A").

An SV is (n, at, guard): the subsequence of at(i), 0 <= i < n, over those i with guard(i), in index
order.  `at` is a Python closure from a z3 Int term to a scalar proxy; element-wise operations compose
closures, so they create no quantifier.  Reductions introduce a fresh scalar with its defining
(quantified) axioms and Skolem witnesses.
"""
import z3
from .core import SB, Unsupported, QScope, cur, tobool
from .values import SF, SI, it, ite, np_max2, np_min2, I, R, B, PINF, NINF, FALSE, TRUE, feq


def _t(n):
    return n.t if isinstance(n, SI) else (n if z3.is_expr(n) else z3.IntVal(int(n)))


def _memo_at(at):
    """Element functions are closures over closures (every masked store wraps the previous contents): without sharing, evaluating
    one element re-evaluates common sub-closures exponentially often.  Results are cached per (context, index term, enclosing
    quantifier scopes) - the scopes matter because axioms emitted while evaluating go to the innermost scope."""
    if at is None or getattr(at, "_vcx_memo", False):
        return at
    cache = {}

    def f(i):
        from .core import Ctx
        c = Ctx.cur
        if c is None:
            return at(i)            # no exploration in progress (a counter-model is being read off): no cache
        key = (i.get_id() if z3.is_expr(i) else ("py", i), tuple(id(q[1]) for q in c.qscopes))
        hit = cache.get(key)
        if hit is not None and hit[0] is c:
            return hit[2]
        r = at(i)
        cache[key] = (c, i, r)
        return r
    f._vcx_memo = True
    return f


class SV:
    _vcx_symbolic = True
    _vcx_asarray = True
    __array_ufunc__ = None

    def __init__(self, n, at, kind="f", guard=None, owner="solver", arange=False, name=None):
        self.n = _t(n)
        self.at = _memo_at(at)
        self.kind = kind
        self.guard = _memo_at(guard)          # None = dense
        self.owner = owner
        self.arange = arange
        self.version = 0
        self.name = name
        self.tags = set()
        self.ghost = {}
        SV._ncid += 1
        self.cid = SV._ncid          # content identity: shared by copies, renewed by in-place writes

    _ncid = 0

    # ---- helpers ---------------------------------------------------------------------------
    def g(self, i):
        return TRUE if self.guard is None else self.guard(i)

    def indom(self, i):
        return z3.And(0 <= i, i < self.n, self.g(i))

    def dense(self):
        return self.guard is None

    def map(self, fn, kind=None):
        at = self.at
        return SV(self.n, lambda i: fn(at(i)), kind or self.kind, self.guard)

    def copy(self):
        v = SV(self.n, self.at, self.kind, self.guard, "solver", self.arange)
        v.tags = set(self.tags)
        v.ghost = dict(self.ghost)
        v.cid = self.cid
        return v
    _vcx_copy = copy

    def astype(self, *_a, **_k):
        return self.copy()

    def _write(self, at):
        if self.owner == "user":
            cur().oblige("frame.user_array_not_written", FALSE, kind="frame",
                         note=f"in-place write to user-owned array {self.name}")
        self.at = _memo_at(at)
        self.version += 1
        SV._ncid += 1
        self.cid = SV._ncid
        self.tags.clear()
        self.ghost.clear()

    # ---- shape -----------------------------------------------------------------------------
    @property
    def size(self):
        if self.dense():
            return SI(self.n)
        return count_guard(self)

    @property
    def shape(self):
        return (self.size,)

    @property
    def ndim(self):
        return 1

    def _vcx_len(self):
        return self.size

    def __len__(self):
        raise Unsupported("len() of a symbolic vector reached a builtin")

    def __iter__(self):
        raise Unsupported("iteration over a symbolic vector")

    def __bool__(self):
        raise Unsupported("truth value of a symbolic vector")

    def __array__(self, *a, **k):
        raise Unsupported("numpy conversion of a symbolic vector")

    # ---- elementwise arithmetic / comparison ----------------------------------------------------
    def _bin(self, o, fn, kind=None, swap=False, op=None):
        f = (lambda a, b: fn(b, a)) if swap else fn
        r = zipmap(f, self, o, kind)
        if op is not None:
            # structural content identity: the same arithmetic expression over the same contents denotes the same vector
            ok = getattr(o, "cid", None)
            if ok is None:
                if isinstance(o, (int, float)):
                    ok = ("const", float(o))
                elif isinstance(o, SF):
                    ok = ("sf", o.r.get_id(), o.nan.get_id())
            if ok is not None:
                r.cid = (op, ok, self.cid) if swap else (op, self.cid, ok)
        return r

    def __add__(s, o): return s._bin(o, lambda a, b: a + b, op="add")
    def __radd__(s, o): return s._bin(o, lambda a, b: a + b, swap=True, op="add")
    def __sub__(s, o): return s._bin(o, lambda a, b: a - b, op="sub")
    def __rsub__(s, o): return s._bin(o, lambda a, b: a - b, swap=True, op="sub")
    def __mul__(s, o): return s._bin(o, lambda a, b: a * b, op="mul")
    def __rmul__(s, o): return s._bin(o, lambda a, b: a * b, swap=True, op="mul")
    def __truediv__(s, o): return s._bin(o, lambda a, b: a / b, op="div")
    def __rtruediv__(s, o): return s._bin(o, lambda a, b: a / b, swap=True, op="div")
    def __pow__(s, p): return s.map(lambda a: a ** p)
    def __neg__(s): return s.map(lambda a: -a)
    def __abs__(s): return s.map(lambda a: abs(a))
    def __lt__(s, o): return s._bin(o, lambda a, b: a < b, "b")
    def __le__(s, o): return s._bin(o, lambda a, b: a <= b, "b")
    def __gt__(s, o): return s._bin(o, lambda a, b: a > b, "b")
    def __ge__(s, o): return s._bin(o, lambda a, b: a >= b, "b")
    def __eq__(s, o): return s._bin(o, lambda a, b: a == b, "b")
    def __ne__(s, o): return s._bin(o, lambda a, b: a != b, "b")
    __hash__ = None

    def __and__(s, o): return s._bin(o, lambda a, b: SB(z3.And(tobool(a), tobool(b))), "b")
    __rand__ = __and__
    def __or__(s, o): return s._bin(o, lambda a, b: SB(z3.Or(tobool(a), tobool(b))), "b")
    __ror__ = __or__
    def __invert__(s): return s.map(lambda a: SB(z3.Not(tobool(a))), "b")

    def _inplace(self, o, fn):
        r = zipmap(fn, self, o, self.kind)
        self._write(r.at)
        return self

    def __iadd__(s, o): return s._inplace(o, lambda a, b: a + b)
    def __isub__(s, o): return s._inplace(o, lambda a, b: a - b)
    def __imul__(s, o): return s._inplace(o, lambda a, b: a * b)
    def __itruediv__(s, o): return s._inplace(o, lambda a, b: a / b)
    def __iand__(s, o): return s._inplace(o, lambda a, b: SB(z3.And(tobool(a), tobool(b))))
    def __ior__(s, o): return s._inplace(o, lambda a, b: SB(z3.Or(tobool(a), tobool(b))))

    def __matmul__(s, o): return dot(s, o)
    def __rmatmul__(s, o): return dot(o, s)

    # ---- indexing ------------------------------------------------------------------------------
    def _index_term(self, k):
        """z3 Int term of a scalar index (negative python ints count from the end)."""
        if isinstance(k, SI):
            return k.t
        if isinstance(k, int):
            return z3.IntVal(k) if k >= 0 else self.n + k
        if hasattr(k, "__index__"):
            k = k.__index__()
            return z3.IntVal(k) if k >= 0 else self.n + k
        return None

    def _positional(self, key):
        """compressed[index_array]: NumPy counts positions in the *compressed* vector.  nth(j) is the base position of its j-th
        element: in range, selected, strictly increasing (so nth(j) >= j).  An index beyond the number of selected elements is an
        IndexError in NumPy: side obligation."""
        c = cur()
        cnt = count_guard(self).t
        nth = z3.Function(c.fresh_name("vcx_nth"), z3.IntSort(), z3.IntSort())
        j = z3.Int(c.fresh_name("vcx_i"))
        with QScope(c, j) as qs:
            sel = self.guard(nth(j))
            picked = key.guard(j) if key.guard is not None else TRUE
        ax = qs.conj()
        c.assume(z3.ForAll([j], z3.And(ax, z3.Implies(z3.And(0 <= j, j < cnt), z3.And(j <= nth(j), nth(j) < self.n, sel))), patterns=[nth(j)]))
        c.assume(z3.ForAll([j], z3.Implies(z3.And(0 <= j, j + 1 < cnt), nth(j) < nth(j + 1)), patterns=[nth(j + 1)]))
        w = z3.Int(c.fresh_name("vcx_any"))
        c.oblige("index.in_bounds", z3.Implies(z3.And(0 <= w, w < key.n, key.guard(w) if key.guard is not None else TRUE), w < cnt),
                 kind="side", note="an index array addresses a position beyond the end of a compressed vector (IndexError)")
        at = self.at
        return SV(self.n, lambda i: at(nth(i)), self.kind, key.guard)

    def __getitem__(self, key):
        if isinstance(key, tuple) and len(key) == 1:
            key = key[0]
        if isinstance(key, slice) and key == slice(None):
            return self          # a view of the whole vector
        if isinstance(key, FlatNonzero):
            key = key.mask          # v[np.flatnonzero(mask)] == v[mask]
        if isinstance(key, SV):
            if key.kind == "b":
                _align_base(self, key, "mask")
                sg, m = self.guard, key.at
                if not key.dense():
                    # a mask computed from a compressed vector selects among its positions: same base guard required
                    _align(self, key)          # (a mask of a compressed vector on a dense one: lengths differ in NumPy - obligation)
                    sg_ = sg if sg is not None else (lambda i: TRUE)
                    return SV(self.n, self.at, self.kind, lambda i: z3.And(sg_(i), tobool(m(i))), arange=self.arange)
                if sg is None:
                    g = lambda i: tobool(m(i))
                else:
                    raise Unsupported("boolean mask applied to an already compressed vector")
                return SV(self.n, self.at, self.kind, g, arange=self.arange)
            if key.kind == "i" and key.arange:
                # np.arange(m)[mask] used as an index array == boolean selection by that mask
                _align_n(self, key)
                if not self.dense():
                    return self._positional(key)
                return SV(self.n, self.at, self.kind, key.guard)
            raise Unsupported("fancy indexing with a general integer array")
        k = self._index_term(key)
        if k is not None:
            if not self.dense():
                raise Unsupported("positional indexing of a compressed vector")
            c = cur()
            c.oblige("index.in_bounds", z3.And(0 <= k, k < self.n), kind="side")
            return self.at(k)
        raise Unsupported(f"vector index of type {type(key).__name__}")

    def __setitem__(self, key, val):
        if isinstance(key, tuple) and len(key) == 1:
            key = key[0]
        if isinstance(key, FlatNonzero):
            key = key.mask          # v[np.flatnonzero(mask)] = ... writes exactly the positions where mask holds
        old = self.at
        if isinstance(key, slice) and key == slice(None):
            if isinstance(val, SV):
                _align(self, val)
                v = val.at
                self._write(lambda i: v(i))
            else:
                self._write(lambda i: _lift(val, self.kind))
            return
        if isinstance(key, SV) and (key.kind == "b" or (key.kind == "i" and key.arange)):
            if not self.dense():
                raise Unsupported("masked store into a compressed vector")
            if key.kind == "b":
                if not key.dense():
                    raise Unsupported("store through a compressed mask")
                _align_base(self, key, "mask")
                kat = key.at          # bound now: the mask may be rewritten in place later (free_bd[i_new] = False)
                m = lambda i: tobool(kat(i))
            else:
                _align_n(self, key)
                m = key.guard or (lambda i: TRUE)
            if isinstance(val, SV):
                tgt = SV(self.n, None, self.kind, m)
                _align(tgt, val)
                v = val.at
                self._write(lambda i: ite(m(i), v(i), old(i)))
            elif isinstance(val, Concat) or hasattr(val, "__len__") and not isinstance(val, (str,)):
                raise Unsupported("masked store of a concrete array into a symbolic vector")
            else:
                self._write(lambda i: ite(m(i), _lift(val, self.kind), old(i)))
            return
        k = self._index_term(key)
        if k is not None:
            if not self.dense():
                raise Unsupported("positional store into a compressed vector")
            c = cur()
            c.oblige("index.in_bounds", z3.And(0 <= k, k < self.n), kind="side")
            v = _lift(val, self.kind)
            self._write(lambda i: ite(i == k, v, old(i)))
            return
        raise Unsupported(f"vector store with index of type {type(key).__name__}")


def _lift(v, kind):
    if kind == "f":
        return SF.lift(v)
    if kind == "b":
        return v if isinstance(v, SB) else SB(tobool(v))
    if kind == "i":
        return SI.lift(v)
    return v


# ---- alignment -------------------------------------------------------------------------------------
def _align_n(a, b):
    if a.n.eq(b.n):
        return
    cur().oblige("vec.align", a.n == b.n, kind="align")


def _align_base(a, b, what):
    _align_n(a, b)


def _align(a, b):
    """Element-wise combination needs the same base length and equivalent guards."""
    _align_n(a, b)
    if a.guard is None and b.guard is None:
        return
    c = cur()
    k = z3.Int(c.fresh_name("vcx_al"))
    ga, gb = a.g(k), b.g(k)
    if z3.simplify(ga).eq(z3.simplify(gb)):
        return
    c.oblige("vec.align", z3.Implies(z3.And(0 <= k, k < a.n), ga == gb), kind="align")


def zipmap(fn, a, b, kind=None):
    if isinstance(a, SV) and isinstance(b, SV):
        _align(a, b)
        fa, fb = a.at, b.at
        return SV(a.n, lambda i: fn(fa(i), fb(i)), kind or a.kind, a.guard if a.guard is not None else b.guard)
    if isinstance(a, SV):
        if _is_array(b):
            raise Unsupported("symbolic vector combined with a concrete array")
        fa = a.at
        return SV(a.n, lambda i: fn(fa(i), b), kind or a.kind, a.guard)
    if _is_array(a):
        raise Unsupported("symbolic vector combined with a concrete array")
    fb = b.at
    return SV(b.n, lambda i: fn(a, fb(i)), kind or b.kind, b.guard)


def zipmap3(fn, a, b, c_):
    vs = [v for v in (a, b, c_) if isinstance(v, SV)]
    base = vs[0]
    for v in vs[1:]:
        _align(base, v)
    for v in (a, b, c_):
        if _is_array(v):
            raise Unsupported("symbolic vector combined with a concrete array")
    ga = (lambda i: a.at(i)) if isinstance(a, SV) else (lambda i: a)
    gb = (lambda i: b.at(i)) if isinstance(b, SV) else (lambda i: b)
    gc = (lambda i: c_.at(i)) if isinstance(c_, SV) else (lambda i: c_)
    guard = next((v.guard for v in vs if v.guard is not None), None)
    return SV(base.n, lambda i: fn(ga(i), gb(i), gc(i)), base.kind, guard)


def _is_array(x):
    return type(x).__module__ == "numpy" and getattr(x, "ndim", 0) > 0


def broadcast(xs):
    vs = [v for v in xs if isinstance(v, SV)]
    base = vs[0]
    out = []
    for x in xs:
        if isinstance(x, SV):
            _align(base, x)
            out.append(x)
        elif _is_array(x) and x.size == 1:
            out.append(const_vec(base.n, float(x.reshape(-1)[0])))
        elif _is_array(x):
            raise Unsupported("broadcast of a concrete array with a symbolic vector")
        else:
            out.append(const_vec(base.n, x))
    return out


# ---- construction ------------------------------------------------------------------------------------
def fresh_vec(name, n, kind="f", finite=False, nonan=False, owner="solver", anyfloat=False):
    """A vector of arbitrary elements: uninterpreted arrays indexed by position."""
    c = cur()
    nm = c.fresh_name(name)
    n = _t(n)
    if kind == "b":
        A = z3.Array(nm, I, B)
        v = SV(n, lambda i: SB(A[i]), "b", owner=owner, name=nm)
    elif kind == "i":
        A = z3.Array(nm, I, I)
        v = SV(n, lambda i: SI(A[i]), "i", owner=owner, name=nm)
    else:
        Ar = z3.Array(nm, I, R)
        j = z3.Int("vcx_j")
        if c.fmodel == "REAL" or finite:
            c.pc.append(z3.ForAll([j], z3.And(NINF < Ar[j], Ar[j] < PINF), patterns=[Ar[j]]))
            v = SV(n, lambda i: SF(Ar[i]), "f", owner=owner, name=nm)
        else:
            c.pc.append(z3.ForAll([j], z3.And(NINF <= Ar[j], Ar[j] <= PINF), patterns=[Ar[j]]))
            if nonan:
                v = SV(n, lambda i: SF(Ar[i], FALSE, True), "f", owner=owner, name=nm)
            else:
                An = z3.Array(nm + "?nan", I, B)
                v = SV(n, lambda i: SF(Ar[i], An[i], True), "f", owner=owner, name=nm)
    c.named[nm] = v
    return v


def const_vec(n, val, like=None):
    kind = "f"
    if isinstance(val, (bool, SB)):
        kind = "b"
    v = _lift(val, kind)
    return SV(_t(n), lambda i: v, kind)


def from_list(xs):
    kind = "b" if all(isinstance(x, (bool, SB)) for x in xs) else "f"
    ys = [_lift(x, kind) for x in xs]

    def at(i):
        acc = ys[-1]
        for k in range(len(ys) - 2, -1, -1):
            acc = ite(i == k, ys[k], acc)
        return acc
    return SV(len(ys), at, kind)


# ---- reductions ----------------------------------------------------------------------------------------
def _forall(v, body_fn, extra_rng=None):
    """ForAll i in dom(v): body_fn(i) (axioms about elements are kept inside the quantifier)."""
    c = cur()
    j = z3.Int(c.fresh_name("vcx_i"))
    with QScope(c, j) as qs:
        rng = v.indom(j)
        body = tobool(body_fn(j))
    return z3.ForAll([j], z3.And(qs.conj(), z3.Implies(rng, body)))


def inst_points(c):
    """Index terms at which universally quantified facts are also asserted as explicit instances (opt-in per unit through
    c.ghost["instantiate_at"]; with "instantiate_at_witnesses" also at every witness known on the path).  Instances are consequences
    of the quantified fact, evaluated outside any quantifier scope so that the element-wise arithmetic axioms are available there."""
    pts = list(c.ghost.get("instantiate_at", ()))
    if c.ghost.get("instantiate_at_witnesses"):
        pts += [w for w in c.witnesses if not any(w.eq(p_) for p_ in pts)]
    return pts


def _instances(v, guard, body_fn):
    c = cur()
    if c.qscopes:
        return
    for w in inst_points(c):
        c.assume(z3.Implies(z3.And(guard, v.indom(w)), tobool(body_fn(w))))


def _at_const(v, nm="vcx_w"):
    c = cur()
    w = z3.Int(c.fresh_name(nm))
    c.witnesses.append(w)
    return w


def exists_goal(pred, extra=()):
    """An existential goal as a disjunction over the candidate witnesses known on this path."""
    c = cur()
    cands = list(extra) + list(c.witnesses)
    if not cands:
        return FALSE
    return z3.Or(*[tobool(pred(w)) for w in cands])


def reduce_all(v):
    if v.kind != "b":
        raise Unsupported("np.all of a non-boolean vector")
    c = cur()
    j = z3.Int(c.fresh_name("vcx_i"))
    with QScope(c, j) as qs:
        rng = v.indom(j)
        bt = tobool(v.at(j))
    ax = qs.conj()
    q = z3.ForAll([j], z3.Implies(rng, bt))

    def on_true(ctx):
        extra = [z3.Implies(v.indom(w), tobool(v.at(w))) for w in inst_points(ctx)] if not ctx.qscopes else []
        return z3.And(z3.ForAll([j], z3.And(ax, z3.Implies(rng, bt))), *extra)

    def on_false(ctx):
        w = z3.Int(ctx.fresh_name("vcx_sk"))
        ctx.witnesses.append(w)
        return z3.substitute(z3.And(ax, rng, z3.Not(bt)), (j, w))
    return SB(q, on_true=on_true, on_false=on_false)


def reduce_any(v):
    if v.kind != "b":
        raise Unsupported("np.any of a non-boolean vector")
    c = cur()
    j = z3.Int(c.fresh_name("vcx_i"))
    with QScope(c, j) as qs:
        rng = v.indom(j)
        bt = tobool(v.at(j))
    ax = qs.conj()
    q = z3.Exists([j], z3.And(rng, bt))

    def on_true(ctx):
        w = z3.Int(ctx.fresh_name("vcx_sk"))
        ctx.witnesses.append(w)
        return z3.substitute(z3.And(ax, rng, bt), (j, w))

    def on_false(ctx):
        extra = [z3.Implies(v.indom(w), z3.Not(tobool(v.at(w)))) for w in inst_points(ctx)] if not ctx.qscopes else []
        return z3.And(z3.ForAll([j], z3.And(ax, z3.Implies(rng, z3.Not(bt)))), *extra)
    return SB(q, on_true=on_true, on_false=on_false)


def _reduce_ext(v, nanaware, is_min, initial=None, name="red"):
    if isinstance(v, Concat):
        return v.reduce_ext(nanaware, is_min, initial)
    if v.kind != "f":
        raise Unsupported("min/max of a non-float vector")
    c = cur()
    nm = c.fresh_name(("min" if is_min else "max"))
    m = SF(z3.Real(nm), z3.Bool(nm + "?nan"), True)
    c.pc.append(z3.And(NINF <= m.r, m.r <= PINF))
    c.solver.add(z3.And(NINF <= m.r, m.r <= PINF))
    w = _at_const(v)
    wn = _at_const(v)
    le = (lambda a, b: a <= b) if is_min else (lambda a, b: a >= b)
    ini = None if initial is None else SF.lift(initial)
    if initial is None:
        # numpy raises ValueError on an empty operand
        c.oblige("reduce.nonempty", exists_goal(lambda k: v.indom(k), extra=[z3.IntVal(0), v.n - 1]), kind="side")
    ew = v.at(w)
    ewn = v.at(wn)
    if not nanaware:
        some_nan = z3.And(v.indom(wn), ewn.nan) if ini is None else z3.Or(z3.And(v.indom(wn), ewn.nan), ini.nan)
        c.assume(z3.Implies(m.nan, some_nan))
        c.assume(z3.Implies(z3.Not(m.nan), _forall(v, lambda i: z3.Not(v.at(i).nan))))
        _instances(v, z3.Not(m.nan), lambda i: z3.Not(v.at(i).nan))
        if ini is not None:
            c.assume(z3.Implies(z3.Not(m.nan), z3.Not(ini.nan)))
        c.assume(z3.Implies(z3.Not(m.nan), _forall(v, lambda i: le(m.r, v.at(i).r))))
        _instances(v, z3.Not(m.nan), lambda i: le(m.r, v.at(i).r))
        att = z3.And(v.indom(w), ew.r == m.r)
        if ini is not None:
            att = z3.Or(att, ini.r == m.r)
            c.assume(z3.Implies(z3.Not(m.nan), le(m.r, ini.r)))
        c.assume(z3.Implies(z3.Not(m.nan), att))
    else:
        c.assume(z3.Implies(m.nan, _forall(v, lambda i: v.at(i).nan)))
        c.assume(z3.Implies(z3.Not(m.nan), _forall(v, lambda i: z3.Implies(z3.Not(v.at(i).nan), le(m.r, v.at(i).r)))))
        att = z3.And(v.indom(w), z3.Not(ew.nan), ew.r == m.r)
        if ini is not None:
            raise Unsupported("nanmin/nanmax with initial")
        c.assume(z3.Implies(z3.Not(m.nan), att))
    return m


def reduce_min(v, nanaware=False, initial=None, **kw):
    if kw:
        raise Unsupported(f"np.min with {sorted(kw)}")
    return _reduce_ext(v, nanaware, True, initial)


def reduce_max(v, nanaware=False, initial=None, **kw):
    if kw:
        raise Unsupported(f"np.max with {sorted(kw)}")
    return _reduce_ext(v, nanaware, False, initial)


def _nonzero(e, kind):
    if kind == "b":
        return tobool(e)
    if kind == "i":
        return it(e) != 0
    e = SF.lift(e)
    return z3.Or(e.nan, e.r != 0)


_K = z3.Int("vcx_K")


def count_pred(n, dom, pred, dense_total=None):
    """Number of indices i in [0, n) with dom(i) and pred(i).  Cached on the syntactic predicate, so that
    np.count_nonzero(mask), len(v[mask]) and v[mask].size denote the same integer."""
    c = cur()
    body = z3.simplify(z3.And(dom(_K), pred(_K)))
    key = ("count", n.get_id(), body.get_id())
    if key in c.ghost:
        return c.ghost[key][0]
    cnt = z3.Int(c.fresh_name("count"))
    w, w2, w0 = (z3.Int(c.fresh_name("vcx_w")) for _ in range(3))
    c.witnesses += [w, w2, w0]
    sel = lambda i: z3.And(0 <= i, i < n, dom(i), pred(i))
    j = z3.Int(c.fresh_name("vcx_i"))
    with QScope(c, j) as qs:
        bj = z3.And(dom(j), pred(j))
    ax = qs.conj()
    rng = z3.And(0 <= j, j < n)
    c.assume(z3.And(0 <= cnt, cnt <= n, n >= 0))
    c.assume(z3.Implies(cnt == 0, z3.ForAll([j], z3.And(ax, z3.Implies(rng, z3.Not(bj))))))
    c.assume(z3.Implies(cnt > 0, sel(w)))
    c.assume(z3.Implies(cnt == 1, z3.ForAll([j], z3.And(ax, z3.Implies(z3.And(rng, bj), j == w)))))
    c.assume(z3.Implies(cnt >= 2, z3.And(sel(w2), w2 != w)))
    c.assume(z3.Implies(cnt == n, z3.ForAll([j], z3.And(ax, z3.Implies(rng, bj)))))
    c.assume(z3.Implies(cnt < n, z3.And(0 <= w0, w0 < n, z3.Not(z3.And(dom(w0), pred(w0))))))
    r = SI(cnt)
    c.ghost[key] = (r, body)
    return r


def count_nonzero(v):
    if isinstance(v, Concat):
        return v.count_nonzero()
    return count_pred(v.n, v.g, lambda i: _nonzero(v.at(i), v.kind))


def count_guard(v):
    """Number of selected positions of a compressed vector."""
    return count_pred(v.n, v.g, lambda i: TRUE)


class FlatNonzero:
    """np.flatnonzero(mask): only [-1], [0] and .size are modelled."""
    _vcx_symbolic = True

    def __init__(self, mask):
        if mask.kind != "b":
            raise Unsupported("flatnonzero of a non-boolean vector")
        self.mask = mask

    def __getitem__(self, k):
        v = self.mask
        c = cur()
        if k not in (-1, 0):
            raise Unsupported("flatnonzero(...)[k] only for k in {0, -1}")
        c.oblige("flatnonzero.nonempty", exists_goal(lambda w: z3.And(v.indom(w), tobool(v.at(w)))), kind="side",
                 note="IndexError if no element is selected")
        i = z3.Int(c.fresh_name("last" if k == -1 else "first"))
        c.witnesses.append(i)
        c.assume(z3.And(v.indom(i), tobool(v.at(i))))
        if k == -1:
            c.assume(_forall(v, lambda j: z3.Implies(j > i, z3.Not(tobool(v.at(j))))))
        else:
            c.assume(_forall(v, lambda j: z3.Implies(j < i, z3.Not(tobool(v.at(j))))))
        if not v.dense():
            # the mask lives on a compressed vector: NumPy's index is the POSITION in that compressed vector, i.e. the number of
            # selected base positions before i - not the base position (they differ as soon as an earlier element was filtered out)
            rank = count_pred(i, v.g, lambda j: TRUE)
            return SI(rank.t)
        return SI(i)

    @property
    def size(self):
        return count_nonzero(self.mask)


def argext(v, maximize):
    if not v.dense() or v.kind != "f":
        raise Unsupported("argmax/argmin of a compressed or non-float vector")
    c = cur()
    k = z3.Int(c.fresh_name("argmax" if maximize else "argmin"))
    c.witnesses.append(k)
    c.oblige("argext.nonempty", v.n >= 1, kind="side")
    ek = v.at(k)
    c.assume(z3.And(0 <= k, k < v.n))
    # evaluate the elements at the indices already singled out on this path, so that the element-wise arithmetic facts (which are
    # dropped inside quantifier bodies) are available there
    for wit in list(c.witnesses):
        if not wit.eq(k):
            v.at(wit)
    # numpy: the first NaN if any, else the first extremum
    c.assume(z3.Implies(ek.nan, _forall(v, lambda j: z3.Implies(j < k, z3.Not(v.at(j).nan)))))
    cmp_ = (lambda a, b: a >= b) if maximize else (lambda a, b: a <= b)
    scmp = (lambda a, b: a > b) if maximize else (lambda a, b: a < b)
    c.assume(z3.Implies(z3.Not(ek.nan), _forall(v, lambda j: z3.And(z3.Not(v.at(j).nan), cmp_(ek.r, v.at(j).r),
                                                                     z3.Implies(j < k, scmp(ek.r, v.at(j).r))))))
    return SI(k)


_NORM = z3.Function("vcx_norm", I, R)


def norm(v):
    if isinstance(v, Concat):
        return v.norm()
    c = cur()
    key = ("norm", id(v), v.version)
    if key in c.ghost:
        return c.ghost[key][1]
    nm = c.fresh_name("norm")
    w = _at_const(v)
    if c.fmodel == "REAL":
        m = SF(z3.Real(nm))
        c.assume(z3.And(m.r >= 0, m.r < PINF))
        c.assume(z3.Implies(m.r == 0, _forall(v, lambda i: v.at(i).r == 0)))
        c.assume(z3.Implies(m.r > 0, z3.And(v.indom(w), v.at(w).r != 0)))
        # |v_i| <= ||v||
        c.assume(_forall(v, lambda i: z3.And(v.at(i).r <= m.r, -v.at(i).r <= m.r)))
    else:
        m = SF(z3.Real(nm), z3.Bool(nm + "?nan"), True)
        c.assume(z3.And(NINF <= m.r, m.r <= PINF))
        ew = v.at(w)
        c.assume(z3.Implies(m.nan, z3.And(v.indom(w), ew.nan)))
        c.assume(z3.Implies(z3.Not(m.nan), z3.And(m.r >= 0, _forall(v, lambda i: z3.Not(v.at(i).nan)))))
        c.assume(z3.Implies(z3.And(z3.Not(m.nan), m.r == 0), _forall(v, lambda i: v.at(i).r == 0)))
    c.ghost[key] = (v, m)      # keep v alive so that id(v) stays unique
    return m


def dot(a, b):
    c = cur()
    if a is b and isinstance(a, SV) and "sqnorm" in a.ghost:
        return a.ghost["sqnorm"]          # v @ v of a vector whose squared norm is given by a callee contract
    if isinstance(a, SV) and isinstance(b, SV):
        _align(a, b)
    key = ("dot", getattr(a, "cid", id(a)), getattr(b, "cid", id(b)))
    if key in c.ghost:
        return c.ghost[key][2]
    nm = c.fresh_name("dot")
    if c.fmodel == "REAL":
        m = SF(z3.Real(nm))
        c.assume(z3.And(NINF < m.r, m.r < PINF))
        if isinstance(a, SV) and isinstance(b, SV) and a.kind == "f" and b.kind == "f":
            # sign facts of a sum of products (linear formulation): all terms >= 0 => dot >= 0; moreover some term > 0 => dot > 0
            fa, fb = a.at, b.at
            nonneg = lambda i: z3.Or(z3.And(fa(i).r >= 0, fb(i).r >= 0), z3.And(fa(i).r <= 0, fb(i).r <= 0))
            pos = lambda i: z3.Or(z3.And(fa(i).r > 0, fb(i).r > 0), z3.And(fa(i).r < 0, fb(i).r < 0))
            nonpos = lambda i: z3.Or(z3.And(fa(i).r >= 0, fb(i).r <= 0), z3.And(fa(i).r <= 0, fb(i).r >= 0))
            all_nonneg = _forall(a, nonneg)
            all_nonpos = _forall(a, nonpos)
            w = z3.Int(c.fresh_name("vcx_i"))
            c.assume(z3.Implies(all_nonneg, m.r >= 0))
            c.assume(z3.Implies(all_nonpos, m.r <= 0))
            with QScope(c, w) as qs:
                body = z3.Implies(z3.And(all_nonneg, a.indom(w), pos(w)), m.r > 0)
            c.assume(z3.ForAll([w], z3.And(qs.conj(), body)))
            if a is b:
                c.assume(m.r >= 0)
    else:
        m = SF(z3.Real(nm), z3.Bool(nm + "?nan"), True)
        c.assume(z3.And(NINF <= m.r, m.r <= PINF))
    c.ghost[key] = (a, b, m)
    return m


def vsum(v):
    c = cur()
    nm = c.fresh_name("sum")
    if c.fmodel == "REAL":
        m = SF(z3.Real(nm))
        c.assume(z3.And(NINF < m.r, m.r < PINF))
    else:
        m = SF(z3.Real(nm), z3.Bool(nm + "?nan"), True)
        c.assume(z3.And(NINF <= m.r, m.r <= PINF))
    return m


# ---- concatenation ---------------------------------------------------------------------------------
class Concat:
    """np.concatenate of vectors: reductions distribute over the parts."""
    _vcx_symbolic = True
    _vcx_asarray = True

    def __init__(self, parts):
        self.parts = []
        for p in parts:
            if isinstance(p, Concat):
                self.parts.extend(p.parts)
            else:
                self.parts.append(p)

    def _conc(self, p):
        return not isinstance(p, SV)

    def reduce_ext(self, nanaware, is_min, initial):
        if nanaware:
            raise Unsupported("nanmin/nanmax over a concatenation")
        import numpy as np
        if initial is None:
            raise Unsupported("min/max over a concatenation without `initial`")
        acc = SF.lift(initial)
        f2 = np_min2 if is_min else np_max2
        for p in self.parts:
            if self._conc(p):
                p = np.asarray(p, dtype=float)
                for e in p.reshape(-1):
                    acc = f2(acc, float(e))
            else:
                # fold with the running value as `initial` keeps one fresh scalar per part
                acc = _reduce_ext(p, False, is_min, initial=acc)
        return acc

    def count_nonzero(self):
        import numpy as np
        tot = SI(0)
        for p in self.parts:
            if self._conc(p):
                tot = tot + int(np.count_nonzero(p))
            else:
                tot = tot + count_nonzero(p)
        return tot

    def norm(self):
        c = cur()
        nm = c.fresh_name("norm")
        m = SF(z3.Real(nm), z3.Bool(nm + "?nan") if c.fmodel != "REAL" else None, c.fmodel != "REAL")
        c.assume(z3.Implies(z3.Not(m.nan), m.r >= 0))
        c.assume(z3.And(NINF <= m.r, m.r <= PINF))
        return m

    @property
    def size(self):
        import numpy as np
        tot = SI(0)
        for p in self.parts:
            tot = tot + (int(np.size(p)) if self._conc(p) else p.size)
        return tot

    def __getitem__(self, k):
        raise Unsupported("indexing into a symbolic concatenation")



# ---- the Python builtin max() over an array (sequential semantics: `if item > current: current = item`) -----------------------------
def _fold_pymax(has, val, p):
    """One part of the sequence.  (has, val): whether an element was seen so far and the running value.  Exact semantics of the
    sequential fold: a NaN in first position stays (nothing compares greater than NaN), any later NaN is skipped."""
    c = cur()
    nm = c.fresh_name("pymax")
    r = SF(z3.Real(nm), z3.Bool(nm + "?nan"), True)
    c.assume(z3.And(NINF <= r.r, r.r <= PINF))
    has2 = z3.Bool(nm + "?has")
    cnt = count_guard(p).t if not p.dense() else p.n
    f = z3.Int(c.fresh_name("vcx_first"))
    w = z3.Int(c.fresh_name("vcx_w"))
    c.witnesses += [f, w]
    ef, ew = p.at(f), p.at(w)
    c.assume(z3.Implies(cnt > 0, z3.And(p.indom(f), _forall(p, lambda j: z3.Implies(j < f, FALSE)) if p.dense() else
                                        z3.And(p.indom(f), _forall_base(p, lambda j: z3.Implies(z3.And(j < f), z3.Not(p.g(j))))))))
    if p.dense():
        c.assume(z3.Implies(cnt > 0, f == 0))
    le_all = _forall(p, lambda j: z3.Implies(z3.Not(p.at(j).nan), p.at(j).r <= r.r))
    attained = z3.And(p.indom(w), z3.Not(ew.nan), ew.r == r.r)
    carried_nan = z3.And(has, val.nan)
    carried_num = z3.And(has, z3.Not(val.nan))
    start = z3.And(z3.Not(has), cnt > 0)
    c.assume(has2 == z3.Or(has, cnt > 0))
    c.assume(z3.Implies(carried_nan, r.nan))
    c.assume(z3.Implies(carried_num, z3.And(z3.Not(r.nan), r.r >= val.r, le_all, z3.Or(r.r == val.r, attained))))
    c.assume(z3.Implies(z3.And(start, ef.nan), r.nan))
    c.assume(z3.Implies(z3.And(start, z3.Not(ef.nan)), z3.And(z3.Not(r.nan), le_all, attained)))
    _instances(p, z3.And(z3.Not(r.nan), z3.Or(carried_num, start)), lambda j: z3.Implies(z3.Not(p.at(j).nan), p.at(j).r <= r.r))
    return has2, r


def _forall_base(v, body_fn):
    """ForAll j in [0, n): body_fn(j)  (over base positions, whatever the guard)"""
    c = cur()
    j = z3.Int(c.fresh_name("vcx_i"))
    with QScope(c, j) as qs:
        body = tobool(body_fn(j))
    return z3.ForAll([j], z3.And(qs.conj(), z3.Implies(z3.And(0 <= j, j < v.n), body)))


def py_seq_max(seq, default=None, has_default=False):
    import numpy as np
    parts = seq.parts if isinstance(seq, Concat) else [seq]
    has, val = FALSE, SF.lift(0.0)
    for p in parts:
        if not isinstance(p, SV):
            for e in np.asarray(p, dtype=float).reshape(-1):
                e = SF.lift(float(e))
                val = ite(has, ite(z3.Or(val.nan, z3.Not(tobool(e > val))), val, e), e)
                has = TRUE
            continue
        if p.kind != "f":
            raise Unsupported("max() over a non-float vector")
        has, val = _fold_pymax(has, val, p)
    c = cur()
    if c.branch(SB(z3.Not(has))):
        if has_default:
            return default
        raise ValueError("max() arg is an empty sequence")
    return val


# ---- minimal 2-D arrays ------------------------------------------------------------------------------------------------
class SM2:
    """Dense 2-D float array of symbolic shape: element reads/stores, column/row views (only what Interpolation needs)."""
    _vcx_symbolic = True
    _vcx_asarray = True
    __array_ufunc__ = None

    def __init__(self, nr, nc, at):
        self.nr, self.nc, self.at = _t(nr), _t(nc), at
        self.version = 0

    @property
    def shape(self):
        return (SI(self.nr), SI(self.nc))

    def _ix(self, k, n):
        if isinstance(k, SI):
            return k.t
        if isinstance(k, int):
            return z3.IntVal(k) if k >= 0 else n + k
        return None

    def __getitem__(self, key):
        if not (isinstance(key, tuple) and len(key) == 2):
            raise Unsupported("2-D array indexed with a single index")
        a, b = key
        i, j = self._ix(a, self.nr), self._ix(b, self.nc)
        at = self.at
        if i is not None and j is not None:
            cur().oblige("index.in_bounds", z3.And(0 <= i, i < self.nr, 0 <= j, j < self.nc), kind="side")
            return at(i, j)
        if isinstance(a, slice) and a == slice(None) and j is not None:
            cur().oblige("index.in_bounds", z3.And(0 <= j, j < self.nc), kind="side")
            return SV(self.nr, lambda r: at(r, j))
        if isinstance(b, slice) and b == slice(None) and i is not None:
            cur().oblige("index.in_bounds", z3.And(0 <= i, i < self.nr), kind="side")
            return SV(self.nc, lambda q: at(i, q))
        raise Unsupported("2-D indexing pattern not modelled")

    def __setitem__(self, key, val):
        if not (isinstance(key, tuple) and len(key) == 2):
            raise Unsupported("2-D store with a single index")
        a, b = key
        i, j = self._ix(a, self.nr), self._ix(b, self.nc)
        old = self.at
        if i is not None and j is not None:
            cur().oblige("index.in_bounds", z3.And(0 <= i, i < self.nr, 0 <= j, j < self.nc), kind="side")
            v = SF.lift(val)
            self.at = lambda r, q: ite(z3.And(r == i, q == j), v, old(r, q))
            self.version += 1
            return
        if isinstance(a, slice) and a == slice(None) and j is not None and isinstance(val, SV):
            cur().oblige("index.in_bounds", z3.And(0 <= j, j < self.nc), kind="side")
            _align_n(SV(self.nr, None), val)
            va = val.at
            self.at = lambda r, q: ite(q == j, va(r), old(r, q))
            self.version += 1
            return
        raise Unsupported("2-D store pattern not modelled")
