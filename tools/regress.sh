#!/bin/sh
# run every registered check (quick tier unless $1 given) and print one line each
cd "$(dirname "$0")/.."
for P in C01 C02 C03 C05 C06 C07 C08 C09 C10 C11 C12 C13 C14 C15 C16 C17 C18 C19 C20; do
  ./check $P --tier ${1:-quick} 2>&1 | grep -E "^pyvc|VIOLATION|KNOWN" | cut -c1-260
done
