"""C11: frame conditions.  (1) a whole-package syntactic frame: no write to state that outlives a call (module globals, class
attributes, caches, mutable defaults), no read of ambient nondeterminism; (2) the prologue of minimize copies the options dict and
never writes to the user's (also C19: the early history_size / filter_size checks).  Ownership obligations on user arrays are
emitted by the units that receive user-owned proxies (boxes.bound_constraints_init, nlcons.nonlinear_call, ...)."""
import ast
import glob
import os
import z3
from pyvc.core import cur, SB, PathEnd, Unsupported, tobool
from pyvc.unit import Unit, call_expecting
from pyvc.values import SF, SI, it
from pyvc.dicts import SDict
from pyvc.transform import repo_root
from .mainloop import main_shadow

MUTATORS = {"append", "extend", "insert", "pop", "remove", "clear", "update", "setdefault", "popitem", "add", "discard", "sort", "reverse"}
AMBIENT = {"random", "time", "secrets", "uuid", "datetime"}


def scan_package():
    """Returns {check name: [offending locations]} over cobyqa/**/*.py (tests excluded)."""
    root = os.path.join(repo_root(), "cobyqa")
    files = [f for f in glob.glob(os.path.join(root, "**", "*.py"), recursive=True) if os.sep + "tests" + os.sep not in f]
    out = {k: [] for k in ("no_global_or_nonlocal", "no_module_state_written_in_functions", "no_mutable_default_arguments",
                           "no_caching_decorators", "no_ambient_nondeterminism", "no_class_attribute_assignment_in_functions",
                           "module_level_containers_never_mutated")}
    nfun = 0
    for f in files:
        src = open(f).read()
        tree = ast.parse(src, f)
        rel = os.path.relpath(f, repo_root())
        modnames = set()
        mutable_globals = set()
        classes = set()
        for n in tree.body:
            if isinstance(n, (ast.Assign, ast.AnnAssign)):
                tg = n.targets if isinstance(n, ast.Assign) else [n.target]
                for t in tg:
                    if isinstance(t, ast.Name):
                        modnames.add(t.id)
                        if isinstance(n.value, (ast.Dict, ast.List, ast.Set, ast.DictComp, ast.ListComp, ast.SetComp)) or (
                                isinstance(n.value, ast.Call) and getattr(n.value.func, "id", "") in ("dict", "list", "set")):
                            mutable_globals.add(t.id)
            elif isinstance(n, ast.ClassDef):
                classes.add(n.name)
            elif isinstance(n, (ast.Import, ast.ImportFrom)):
                for a in n.names:
                    nm = (a.asname or a.name).split(".")[0]
                    if nm in AMBIENT or (isinstance(n, ast.ImportFrom) and (n.module or "").split(".")[0] in AMBIENT):
                        out["no_ambient_nondeterminism"].append(f"{rel}:{n.lineno} import {a.name}")
        for fn in ast.walk(tree):
            if not isinstance(fn, (ast.FunctionDef, ast.AsyncFunctionDef, ast.Lambda)):
                continue
            nfun += 1
            if not isinstance(fn, ast.Lambda):
                for d in fn.args.defaults + [d for d in fn.args.kw_defaults if d is not None]:
                    if isinstance(d, (ast.List, ast.Dict, ast.Set, ast.ListComp, ast.DictComp, ast.SetComp)) or (
                            isinstance(d, ast.Call) and getattr(d.func, "id", "") in ("dict", "list", "set")):
                        out["no_mutable_default_arguments"].append(f"{rel}:{fn.lineno} {fn.name}")
                for d in fn.decorator_list:
                    s = ast.unparse(d)
                    if "cache" in s:
                        out["no_caching_decorators"].append(f"{rel}:{fn.lineno} @{s}")
            body = fn.body if isinstance(fn.body, list) else [fn.body]
            for n in [x for b in body for x in ast.walk(b)]:
                if isinstance(n, (ast.Global, ast.Nonlocal)):
                    out["no_global_or_nonlocal"].append(f"{rel}:{n.lineno}")
                if isinstance(n, (ast.Assign, ast.AugAssign, ast.AnnAssign)):
                    tg = n.targets if isinstance(n, ast.Assign) else [n.target]
                    for t in tg:
                        for tt in ast.walk(t):
                            if isinstance(tt, ast.Subscript) and isinstance(tt.value, ast.Name) and tt.value.id in mutable_globals \
                                    and isinstance(tt.ctx, ast.Store):
                                out["module_level_containers_never_mutated"].append(f"{rel}:{n.lineno} {tt.value.id}[...] = ...")
                            if isinstance(tt, ast.Attribute) and isinstance(tt.ctx, ast.Store) and isinstance(tt.value, ast.Name):
                                if tt.value.id in classes:
                                    out["no_class_attribute_assignment_in_functions"].append(f"{rel}:{n.lineno} {tt.value.id}.{tt.attr}")
                                if tt.value.id in ("np", "numpy", "scipy", "sys", "os", "warnings"):
                                    out["no_module_state_written_in_functions"].append(f"{rel}:{n.lineno} {tt.value.id}.{tt.attr}")
                if isinstance(n, ast.Call) and isinstance(n.func, ast.Attribute) and isinstance(n.func.value, ast.Name):
                    if n.func.value.id in mutable_globals and n.func.attr in MUTATORS:
                        out["module_level_containers_never_mutated"].append(f"{rel}:{n.lineno} {n.func.value.id}.{n.func.attr}()")
                    if n.func.value.id == "os" and n.func.attr in ("getenv", "urandom"):
                        out["no_ambient_nondeterminism"].append(f"{rel}:{n.lineno} os.{n.func.attr}")
                    if n.func.value.id in ("np", "numpy") and n.func.attr in ("seterr", "set_printoptions", "seterrcall"):
                        out["no_module_state_written_in_functions"].append(f"{rel}:{n.lineno} np.{n.func.attr}()")
                if isinstance(n, ast.Attribute) and isinstance(n.value, ast.Attribute) and ast.unparse(n.value) in ("np.random", "numpy.random"):
                    out["no_ambient_nondeterminism"].append(f"{rel}:{n.lineno} {ast.unparse(n)}")
                if isinstance(n, ast.Attribute) and ast.unparse(n) == "os.environ":
                    out["no_ambient_nondeterminism"].append(f"{rel}:{n.lineno} os.environ")
                if isinstance(n, ast.Call) and isinstance(n.func, ast.Name) and n.func.id in ("id", "hash", "input"):
                    out["no_ambient_nondeterminism"].append(f"{rel}:{n.lineno} {n.func.id}()")
    return out, len(files), nfun


class StaticFrame(Unit):
    name = "c11.static_frame"
    props = ("C11",)
    fmodel = "ORDER"
    functions = [("cobyqa", "*")]
    assumptions = ["non-interference argument: no schedule is explored; if no call writes to memory reachable from another call, every "
                   "interleaving equals the serial run; thread-safety and bit-reproducibility of NumPy/SciPy/BLAS are assumed",
                   "the syntactic frame covers module globals, class attributes, caching decorators, mutable defaults and ambient "
                   "nondeterminism sources; aliasing through objects passed by the user is covered by the ownership obligations"]

    def run(self, c):
        res, nfiles, nfun = scan_package()
        c.oblige("C11.static_frame.scanned_something", z3.BoolVal(nfiles >= 8 and nfun >= 100), props=["C11"])
        for k, bad in res.items():
            c.oblige("C11.static_frame." + k, z3.BoolVal(not bad), props=["C11"], note="; ".join(bad[:6]) if bad else None)


class Cut(Exception):
    pass


class MinimizePrologue(Unit):
    """The prologue of minimize up to the construction of Problem: early size checks (C19), the user's dict is copied (C11), and
    every basic option is forwarded to Problem under its own name with the documented default (C19, C03: filter_size)."""
    name = "c11.minimize_prologue"
    props = ("C11", "C19", "C03", "C05")
    fmodel = "REAL"
    functions = [("cobyqa.main", "minimize")]

    def run(self, c):
        import sys
        from cobyqa.settings import Options
        m = main_shadow("prologue")
        ent = {}
        P, V = {}, {}
        kinds = {"history_size": "i", "filter_size": "i", "feasibility_tol": "f", "scale": "b", "store_history": "b", "debug": "b", "disp": "b"}
        for k, kind in kinds.items():
            P[k] = z3.Bool(c.fresh_name("has_" + k))
            if kind == "i":
                V[k] = SI(z3.Int(c.fresh_name(k)))
            elif kind == "f":
                V[k] = SF.fresh(k, finite=True)
            else:
                V[k] = SB(z3.Bool(c.fresh_name(k)))
            ent[k] = (P[k], V[k])
        user = SDict(ent, owner="user", name="options")
        v0 = user.version
        got = {}

        def problem_stub(obj, x0, bounds, linear, nonlinear, callback, feasibility_tol, scale, store_history, history_size, filter_size, debug):
            got.update(feasibility_tol=feasibility_tol, scale=scale, store_history=store_history, history_size=history_size,
                       filter_size=filter_size, debug=debug)
            raise Cut
        for nm in ("ObjectiveFunction", "BoundConstraints", "LinearConstraints", "NonlinearConstraints"):
            m.__dict__[nm] = lambda *a, **k: None
        m.__dict__["_get_bounds"] = lambda b, n: None
        m.__dict__["_get_constraints"] = lambda cs: ([], [])
        m.__dict__["Problem"] = problem_stub
        kind, res = call_expecting(c, "C08.minimize_prologue", lambda: m.minimize(lambda x: 0.0, [0.0], options=user), (ValueError, Cut))
        bad = z3.Or(z3.And(P["history_size"], V["history_size"].t <= 0), z3.And(P["filter_size"], V["filter_size"].t <= 0))
        c.oblige("C11.minimize_prologue.user_options_not_written", z3.BoolVal(user.version == v0), props=["C11"],
                 note="minimize wrote into the options dict passed by the user")
        if isinstance(res, ValueError):
            c.oblige("C19.minimize_prologue.raises_only_if_bad", bad, props=["C19"])
            return
        c.oblige("C19.minimize_prologue.continues_only_if_good", z3.Not(bad), props=["C19"],
                 note="a non-positive history_size / filter_size was accepted")
        from pyvc.values import realval
        import numpy as np
        dflt = {"history_size": sys.maxsize, "filter_size": sys.maxsize, "feasibility_tol": float(np.sqrt(np.finfo(float).eps)),
                "scale": False, "store_history": False, "debug": False}
        items = []
        for k, d in dflt.items():
            g = got[k]
            if kinds[k] == "i":
                ok = it(g) == z3.If(P[k], V[k].t, z3.IntVal(d))
            elif kinds[k] == "f":
                ok = SF.lift(g).r == z3.If(P[k], V[k].r, realval(d))
            else:
                ok = tobool(g) == z3.If(P[k], V[k].t, z3.BoolVal(d))
            items.append((f"C19.minimize_prologue.option_forwarded.{k}", ok))
        for nm, t in items:
            c.oblige(nm, t, props=["C19", "C03", "C05"] if nm.endswith(("filter_size", "history_size", "store_history")) else ["C19"],
                     note="an option is not handed to Problem under its own name / documented default")


class MinimizeValidationOrder(Unit):
    """C19: whatever the problem looks like (infeasible bounds, every variable fixed, ordinary), minimize hands nothing to
    _build_result and builds no framework before the options *and* the constants have been validated and completed, the constants
    receive exactly the keyword arguments of the caller and the framework receives the completed objects."""
    name = "c11.minimize_validation_order"
    props = ("C19",)
    fmodel = "REAL"
    functions = [("cobyqa.main", "minimize")]
    replay = ("contracts.replays", "minimize_validation_order")

    def run(self, c):
        import types
        m = main_shadow("prologue")
        n = SI(z3.Int(c.fresh_name("n")))
        c.assume(n.t >= 0)
        feas = SB(z3.Bool(c.fresh_name("bounds_feasible")))
        c.named["n"], c.named["bounds_feasible"] = n, feas
        pb = types.SimpleNamespace(n=n, bounds=types.SimpleNamespace(is_feasible=feas),
                                   x0="x0", fun_name="fun", type="problem", n_orig=n, is_feasibility=False, n_eval=0)
        seen = {"options": None, "constants": None, "events": []}
        completed_consts = {"completed": "constants"}
        user_kwargs = {"low_ratio": "u1", "some_unknown_name": "u2"}

        def set_opts(options, nn):
            seen["options"] = options
            seen["events"].append("options")
            c.oblige("C19.minimize.options_completed_for_the_reduced_dimension", it(nn) == n.t, props=["C19"])

        def set_consts(**kw):
            seen["events"].append("constants")
            c.oblige("C19.minimize.constants_receive_the_callers_keywords", z3.BoolVal(kw == user_kwargs), props=["C19"])
            seen["constants"] = completed_consts
            return completed_consts

        def validated(what):
            c.oblige(f"C19.minimize.options_validated_before_{what}", z3.BoolVal("options" in seen["events"]), props=["C19"],
                     note="a result is produced (or the solver started) for options that were never validated")
            c.oblige(f"C19.minimize.constants_validated_before_{what}", z3.BoolVal("constants" in seen["events"]), props=["C19"],
                     note="a result is produced (or the solver started) for constants that were never validated: invalid or unknown "
                          "constants are silently accepted")

        def TR(pb_, options, constants):
            validated("the_framework_is_built")
            c.oblige("C19.minimize.framework_gets_the_completed_options_and_constants",
                     z3.BoolVal(options is seen["options"] and constants is completed_consts and pb_ is pb), props=["C19"])
            raise Cut

        def build(pb_, penalty, success, status, n_iter, options):
            validated("a_result_is_built")
            c.oblige("C19.minimize.result_gets_the_completed_options", z3.BoolVal(options is seen["options"]), props=["C19"])
            raise Cut
        for nm in ("ObjectiveFunction", "BoundConstraints", "LinearConstraints", "NonlinearConstraints"):
            m.__dict__[nm] = lambda *a, **k: None
        m.__dict__["_get_bounds"] = lambda b, n: None
        m.__dict__["_get_constraints"] = lambda cs: ([], [])
        m.__dict__["Problem"] = lambda *a, **k: pb
        m.__dict__.update({"_set_default_options": set_opts, "_set_default_constants": set_consts, "TrustRegion": TR, "_build_result": build})
        kind, res = call_expecting(c, "C08.minimize_validation_order", lambda: m.minimize(lambda x: 0.0, [0.0], **user_kwargs), (Cut,))
        c.oblige("C19.minimize.validation_order_reaches_a_result_or_the_framework", z3.BoolVal(isinstance(res, Cut)), props=["C19"])


class Watched(dict):
    """a user-owned dict: every mutating operation is recorded"""

    def __init__(self, *a, **k):
        dict.__init__(self, *a, **k)
        self.writes = []

    def _w(name):
        def f(self, *a, **k):
            before = dict(self)
            r = getattr(dict, name)(self, *a, **k)
            if dict(self) != before or name in ("__setitem__", "__delitem__", "update", "clear", "pop", "popitem"):
                self.writes.append((name, a[:1]))
            return r
        return f
    for _n in ("__setitem__", "__delitem__", "setdefault", "update", "pop", "popitem", "clear", "__ior__"):
        locals()[_n] = _w(_n)
    del _n, _w


class GetConstraintsFrame(Unit):
    """main._get_constraints on constraints given as dictionaries: the behaviour depends only on which of the keys type / fun / args are
    present, on the type and on the container (a dict alone, a list, a tuple) - all combinations are enumerated on the real code.
    The caller's dictionaries are never written (C11) and each becomes the NonlinearConstraint the documentation promises (C10)."""
    name = "c11.get_constraints_dicts"
    props = ("C11", "C10")
    fmodel = "ORDER"
    functions = [("cobyqa.main", "_get_constraints"), ("cobyqa.main", "_get_nonlinear_constraint")]

    def run(self, c):
        import numpy as np
        from scipy.optimize import NonlinearConstraint
        m = main_shadow("prologue")
        calls = []

        def ufun(x, *args):
            calls.append((x, args))
            return 7.0
        k = 0
        for kind in ("eq", "ineq", "other", None):
            for has_fun in (True, False):
                for args in ("absent", (), (1.5,), 2.5):
                    for container in ("alone", "list", "tuple"):
                        d = Watched()
                        if kind is not None:
                            d["type"] = kind
                        if has_fun:
                            d["fun"] = ufun
                        if args != "absent":
                            d["args"] = args
                        d.writes.clear()
                        snapshot = dict(d)
                        arg = d if container == "alone" else [d] if container == "list" else (d,)
                        valid = kind in ("eq", "ineq") and has_fun
                        tag = f"[type={kind},fun={has_fun},args={args!r},{container}]"
                        kind_, res = call_expecting(c, "C08.get_constraints" + tag, lambda: m._get_constraints(arg), (ValueError,))
                        k += 1
                        c.oblige("C11.get_constraints.user_dict_not_written" + tag, z3.BoolVal(not d.writes and dict(d) == snapshot), props=["C11"],
                                 note=f"the caller's constraint dictionary was modified: {d.writes} {dict(d)}")
                        c.oblige("C19.get_constraints.valueerror_iff_malformed" + tag, z3.BoolVal((kind_ == "exc") == (not valid)), props=["C10", "C11"])
                        if kind_ != "exc" and valid:
                            lin, nl = res
                            ok = len(lin) == 0 and len(nl) == 1 and isinstance(nl[0], NonlinearConstraint)
                            if ok:
                                calls.clear()
                                v = nl[0].fun("X")
                                exp_args = () if args == "absent" else (args if isinstance(args, tuple) else (args,))
                                ok = v == 7.0 and calls == [("X", exp_args)] and float(np.max(nl[0].lb)) == 0.0 and \
                                    float(np.max(nl[0].ub)) == (0.0 if kind == "eq" else np.inf)
                            c.oblige("C10.get_constraints.dict_becomes_the_documented_constraint" + tag, z3.BoolVal(bool(ok)), props=["C10"])


UNITS = [StaticFrame(), MinimizePrologue(), MinimizeValidationOrder(), GetConstraintsFrame()]
