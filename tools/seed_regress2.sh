#!/bin/sh
# tools/seed_regress2.sh: the seed regression in two lanes (odd / even entries), results in /tmp/scratch/seedreg_{a,b}.log
cd "$(dirname "$0")/.."
ls -d seeded/*/ | grep -v "/_" | awk 'NR%2==1' > /tmp/scratch/lane_a.txt
ls -d seeded/*/ | grep -v "/_" | awk 'NR%2==0' > /tmp/scratch/lane_b.txt
for lane in a b; do
  ( while read d; do
      n=$(basename "$d")
      P=$(python3 -c "import json; print(json.load(open('$d/meta.json'))['property'])")
      out=$(tools/mutant.sh "$PWD/$d/patch.diff" "$P" 2>&1)
      v=$(echo "$out" | grep -c "^VIOLATION")
      echo "$n: violations=$v $(echo "$out" | grep '^pyvc' | sed 's/.*undecided/undecided/')"
    done < /tmp/scratch/lane_$lane.txt > /tmp/scratch/seedreg_$lane.log 2>&1 ) &
done
wait
