#!/bin/sh
# Offline self-check of the tool chain used by ./check (nothing is downloaded or built).
cd "$(dirname "$0")" || exit 1
python3-vt - <<'PY' || exit 1
import z3, numpy, scipy, sympy, sys
s = z3.Solver(); x = z3.Real('x'); s.add(x * x == 2, x > 0)
assert s.check() == z3.sat, "z3 canary failed"
s = z3.Solver(); s.add(x > 0, x < 0)
assert s.check() == z3.unsat, "z3 canary failed"
print("pyvc toolchain ok: z3", z3.get_version_string(), "numpy", numpy.__version__, "scipy", scipy.__version__, "sympy", sympy.__version__)
PY
test -x /venv/bin/python || { echo "/venv/bin/python missing (native replays need it)"; exit 1; }
/venv/bin/python -c "import numpy, scipy" || exit 1
chmod +x check
echo setup ok
