"""Scalar proxies: SI (int), SF (float).

Float model.  A float is (nan: Bool, r: Real).  `r` is the value itself for finite floats;
+inf / -inf are the two symbolic constants PINF / NINF with NINF < every finite value < PINF
(asserted whenever a finite term is created).  Comparisons, min/max/abs/neg/clip, isnan/isinf/
isfinite depend only on order and the NaN flag and are therefore exact for IEEE-754.

Arithmetic depends on the unit's float model (ctx.fmodel):
  ORDER : + - * / sqrt are uninterpreted functions constrained only by theorems of IEEE-754
          round-to-nearest (NaN/inf tables, sign rules, monotonicity, a few identities).
  REAL  : exact real arithmetic on finite operands ("machine arithmetic treated as
          mathematical"); results are assumed finite (no overflow); an operand that may be
          infinite emits a side obligation that it is finite.
"""
import math
from fractions import Fraction
import z3
from .core import Ctx, SB, Unsupported, tobool, cur

I = z3.IntSort()
R = z3.RealSort()
B = z3.BoolSort()
PINF = z3.Real("vcx_PINF")
NINF = z3.Real("vcx_NINF")
FALSE = z3.BoolVal(False)
TRUE = z3.BoolVal(True)


def base_axioms(c):
    c.axiom("inf", z3.And(PINF > 2 ** 1100, NINF == -PINF))


# ---------------------------------------------------------------------------------------------
class SI:
    """Symbolic int."""
    _vcx_symbolic = True
    __array_ufunc__ = None      # numpy scalars defer binary operators to the proxy
    __slots__ = ("t",)

    def __init__(self, t):
        self.t = t if z3.is_expr(t) else z3.IntVal(int(t))

    @staticmethod
    def lift(x):
        if isinstance(x, SI):
            return x
        if isinstance(x, (bool,)):
            return SI(z3.IntVal(int(x)))
        if isinstance(x, int) or type(x).__module__ == "numpy" and "int" in type(x).__name__:
            return SI(z3.IntVal(int(x)))
        raise Unsupported(f"int op with {type(x).__name__}")

    def _num(self, o):
        return isinstance(o, (SI, int)) and not isinstance(o, bool) or (
            type(o).__module__ == "numpy" and "int" in type(o).__name__)

    def __add__(s, o):
        if isinstance(o, (SF, float)):
            return s.tofloat() + o
        return SI(s.t + SI.lift(o).t)
    __radd__ = __add__

    def __sub__(s, o):
        if isinstance(o, (SF, float)):
            return s.tofloat() - o
        return SI(s.t - SI.lift(o).t)

    def __rsub__(s, o):
        if isinstance(o, (SF, float)):
            return o - s.tofloat()
        return SI(SI.lift(o).t - s.t)

    def __mul__(s, o):
        if isinstance(o, (SF, float)):
            return s.tofloat() * o
        return SI(s.t * SI.lift(o).t)
    __rmul__ = __mul__

    def __neg__(s):
        return SI(-s.t)

    def __pos__(s):
        return s

    def _divmod(s, o):
        """Python floor division / modulo by a positive divisor (side obligation: divisor > 0)."""
        o = SI.lift(o)
        if z3.is_int_value(o.t) and o.t.as_long() > 0:
            return SI(s.t / o.t), SI(s.t % o.t)      # z3 int div/mod == floor semantics for a positive divisor
        c = cur()
        c.oblige("int.divisor_positive", o.t > 0, kind="side")
        key = ("divmod", s.t.get_id(), o.t.get_id())
        if key not in c.ghost:
            q = z3.Int(c.fresh_name("quot"))
            r = z3.Int(c.fresh_name("rem"))
            c.assume(z3.And(s.t == q * o.t + r, 0 <= r, r < o.t))
            c.ghost[key] = (SI(q), SI(r))
        return c.ghost[key]

    def __floordiv__(s, o):
        return s._divmod(o)[0]

    def __mod__(s, o):
        return s._divmod(o)[1]

    def __truediv__(s, o):
        return s.tofloat() / o

    def __rtruediv__(s, o):
        return o / s.tofloat()

    def _cmp(s, o, f):
        if isinstance(o, (SF, float)):
            return f(s.tofloat(), o)
        return SB(f(s.t, SI.lift(o).t))

    def __lt__(s, o): return s._cmp(o, lambda a, b: a < b)
    def __le__(s, o): return s._cmp(o, lambda a, b: a <= b)
    def __gt__(s, o): return s._cmp(o, lambda a, b: a > b)
    def __ge__(s, o): return s._cmp(o, lambda a, b: a >= b)

    def __eq__(s, o):
        if o is None:
            return False
        return s._cmp(o, lambda a, b: a == b)

    def __ne__(s, o):
        if o is None:
            return True
        return s._cmp(o, lambda a, b: a != b)
    __hash__ = None

    def tofloat(s):
        c = cur()
        r = z3.ToReal(s.t)
        c.axiom(("finite", r.get_id()), z3.And(NINF < r, r < PINF))
        return SF(r)

    def __float__(s): raise Unsupported("float() of a symbolic int reached a library call")
    def __index__(s): raise Unsupported("symbolic int used as a concrete index")
    def __int__(s): raise Unsupported("int() of a symbolic int reached a library call")
    def __bool__(s): return bool(SB(s.t != 0))
    def __repr__(s): return f"SI({s.t})"


def it(x):
    """z3 Int term of an int-like."""
    if isinstance(x, SI):
        return x.t
    if z3.is_expr(x):
        return x
    return z3.IntVal(int(x))


# ---------------------------------------------------------------------------------------------
_UF = {}


def _uf(name, arity):
    key = (name, arity)
    if key not in _UF:
        sig = [R] * arity
        _UF[key] = z3.Function("vcx_" + name, *sig, R)
    return _UF[key]


def realval(x):
    fr = Fraction(x)
    if fr.denominator == 1:
        return z3.RealVal(str(fr.numerator))
    return z3.Q(fr.numerator, fr.denominator)


class SF:
    """Symbolic float (see module docstring)."""
    _vcx_symbolic = True
    __array_ufunc__ = None
    __slots__ = ("r", "nan", "minf")

    def __init__(self, r, nan=None, minf=False):
        self.r = r
        self.nan = FALSE if nan is None else nan
        self.minf = minf        # syntactically "may be infinite" (REAL model bookkeeping)

    # -- construction -----------------------------------------------------------------------
    @staticmethod
    def lift(x):
        if isinstance(x, SF):
            return x
        if isinstance(x, SI):
            return x.tofloat()
        if isinstance(x, SB):
            raise Unsupported("symbolic bool used as a float")
        if isinstance(x, bool):
            x = float(x)
        if isinstance(x, (int, float)) or type(x).__module__ == "numpy":
            x = float(x)
            if x != x:
                return SF(z3.RealVal(0), TRUE)
            if x == math.inf:
                return SF(PINF, minf=True)
            if x == -math.inf:
                return SF(NINF, minf=True)
            return SF(realval(x))
        raise Unsupported(f"float op with {type(x).__name__}")

    @staticmethod
    def fresh(name, finite=False, nonan=None, ctx=None):
        """A fresh symbolic float input: any float incl. NaN/inf (ORDER) or a finite real (REAL / finite=True)."""
        c = ctx or cur()
        nm = c.fresh_name(name)
        r = z3.Real(nm)
        if c.fmodel == "REAL" or finite:
            rng = z3.And(NINF < r, r < PINF)
            f = SF(r)
        else:
            rng = z3.And(NINF <= r, r <= PINF)
            f = SF(r, FALSE if nonan else z3.Bool(nm + "?nan"), minf=True)
        c.pc.append(rng)
        c.solver.add(rng)
        c.named[nm] = f
        return f

    # -- classification ---------------------------------------------------------------------
    def isnan(s): return SB(s.nan)
    def isinf(s): return SB(z3.And(z3.Not(s.nan), z3.Or(s.r == PINF, s.r == NINF)))
    def isfinite(s): return SB(z3.And(z3.Not(s.nan), s.r != PINF, s.r != NINF))
    def t_fin(s): return z3.And(z3.Not(s.nan), s.r != PINF, s.r != NINF)
    def t_def(s): return z3.Not(s.nan)

    # -- order ---------------------------------------------------------------------------
    def _cmp(s, o, f):
        if o is None:
            raise Unsupported("comparison of a float with None")
        if _isvec(o):
            return NotImplemented
        o = SF.lift(o)
        return SB(z3.simplify(z3.And(z3.Not(s.nan), z3.Not(o.nan), f(s.r, o.r))))

    def __lt__(s, o): return s._cmp(o, lambda a, b: a < b)
    def __le__(s, o): return s._cmp(o, lambda a, b: a <= b)
    def __gt__(s, o): return s._cmp(o, lambda a, b: a > b)
    def __ge__(s, o): return s._cmp(o, lambda a, b: a >= b)

    def __eq__(s, o):
        if o is None:
            return False
        return s._cmp(o, lambda a, b: a == b)

    def __ne__(s, o):
        if o is None:
            return True
        o = SF.lift(o)
        return SB(z3.Or(s.nan, o.nan, s.r != o.r))
    __hash__ = None

    def __neg__(s):
        if s.r.eq(PINF):
            return SF(NINF, s.nan, True)
        if s.r.eq(NINF):
            return SF(PINF, s.nan, True)
        if s.minf:
            return SF(z3.If(s.r == PINF, NINF, z3.If(s.r == NINF, PINF, -s.r)), s.nan, True)
        return SF(z3.simplify(-s.r), s.nan)

    def __pos__(s): return s

    def __abs__(s):
        if s.minf:
            return SF(z3.If(s.r == NINF, PINF, z3.If(s.r < 0, -s.r, s.r)), s.nan, True)
        return SF(z3.If(s.r < 0, -s.r, s.r), s.nan)

    # -- arithmetic ----------------------------------------------------------------------
    def __add__(s, o): return NotImplemented if _isvec(o) else _arith("add", s, o)
    def __radd__(s, o): return NotImplemented if _isvec(o) else _arith("add", o, s)
    def __sub__(s, o): return NotImplemented if _isvec(o) else _arith("sub", s, o)
    def __rsub__(s, o): return NotImplemented if _isvec(o) else _arith("sub", o, s)
    def __mul__(s, o): return NotImplemented if _isvec(o) else _arith("mul", s, o)
    def __rmul__(s, o): return NotImplemented if _isvec(o) else _arith("mul", o, s)
    def __truediv__(s, o): return NotImplemented if _isvec(o) else _arith("div", s, o)
    def __rtruediv__(s, o): return NotImplemented if _isvec(o) else _arith("div", o, s)

    def __pow__(s, p):
        if isinstance(p, (int, float)) and float(p) == 2.0:
            return _arith("mul", s, s)
        if isinstance(p, (int, float)) and float(p) == 3.0:
            return _arith("mul", _arith("mul", s, s), s)
        if isinstance(p, (int, float)) and float(p) == 0.5:
            return fsqrt(s)
        raise Unsupported(f"float ** {p!r}")

    def __float__(s): raise Unsupported("float() of a symbolic float reached a library call")
    def __int__(s): raise Unsupported("int() of a symbolic float")
    def __index__(s): raise Unsupported("symbolic float used as index")
    def __array__(s, *a, **k): raise Unsupported("numpy conversion of a symbolic float")
    def __bool__(s): return bool(SB(z3.Or(s.nan, s.r != 0)))
    def __repr__(s): return f"SF({s.r}, nan={s.nan})"


def _isvec(o):
    return getattr(o, "_vcx_asarray", False)


def _isinfc(r):
    return r.eq(PINF) or r.eq(NINF)


def _fin(x):
    return z3.And(z3.Not(x.nan), x.r != PINF, x.r != NINF)


def _arith(op, a, b):
    a, b = SF.lift(a), SF.lift(b)
    c = cur()
    if c.fmodel == "REAL":
        return _arith_real(c, op, a, b)
    return _arith_order(c, op, a, b)


def _arith_real(c, op, a, b):
    """Exact (extended-)real arithmetic: no rounding, no overflow; infinities and NaN follow the IEEE tables."""
    ext = a.minf or b.minf or not z3.is_false(a.nan) or not z3.is_false(b.nan)
    if not ext:
        if op == "add":
            r = a.r + b.r
        elif op == "sub":
            r = a.r - b.r
        elif op == "mul":
            r = a.r * b.r
        else:
            if not (z3.is_rational_value(b.r) and not z3.is_false(z3.simplify(b.r != 0))):
                c.oblige("real.divisor_nonzero", b.r != 0, kind="side")
            r = a.r / b.r
        r = z3.simplify(r)
        if not z3.is_rational_value(r):
            c.axiom(("finite", r.get_id()), z3.And(NINF < r, r < PINF))
        return SF(r)
    pinf = lambda x: x.r == PINF
    ninf = lambda x: x.r == NINF
    inf = lambda x: z3.Or(x.r == PINF, x.r == NINF)
    if op in ("add", "sub"):
        bb = b if op == "add" else SF(z3.If(b.r == PINF, NINF, z3.If(b.r == NINF, PINF, -b.r)), b.nan, b.minf)
        newnan = z3.Or(z3.And(pinf(a), ninf(bb)), z3.And(ninf(a), pinf(bb)))
        fin = a.r + bb.r
        r = z3.If(z3.Or(pinf(a), pinf(bb)), PINF, z3.If(z3.Or(ninf(a), ninf(bb)), NINF, fin))
        c.axiom(("finite?", fin.get_id()), z3.Implies(z3.And(z3.Not(inf(a)), z3.Not(inf(bb))), z3.And(NINF < fin, fin < PINF)))
    elif op == "mul":
        newnan = z3.Or(z3.And(a.r == 0, inf(b)), z3.And(inf(a), b.r == 0))
        fin = a.r * b.r
        pos = z3.Or(z3.And(a.r > 0, b.r > 0), z3.And(a.r < 0, b.r < 0))
        r = z3.If(z3.Or(inf(a), inf(b)), z3.If(pos, PINF, NINF), fin)
        c.axiom(("finite?", fin.get_id()), z3.Implies(z3.And(z3.Not(inf(a)), z3.Not(inf(b))), z3.And(NINF < fin, fin < PINF)))
    else:
        c.oblige("real.divisor_nonzero", z3.Or(b.nan, b.r != 0), kind="side")
        newnan = z3.And(inf(a), inf(b))
        fin = a.r / b.r
        pos = z3.Or(z3.And(a.r > 0, b.r > 0), z3.And(a.r < 0, b.r < 0))
        r = z3.If(inf(b), z3.RealVal(0), z3.If(inf(a), z3.If(pos, PINF, NINF), fin))
        c.axiom(("finite?", fin.get_id()), z3.Implies(z3.And(z3.Not(inf(a)), z3.Not(inf(b))), z3.And(NINF < fin, fin < PINF)))
    nan = z3.simplify(z3.Or(a.nan, b.nan, newnan))
    return SF(r, nan, True)


def _arith_order(c, op, a, b):
    # constant folding for concrete finite operands keeps e.g. 0.5 * (1.0 + 1.0) exact-free: no,
    # folding would be rounding-unsound in general; only fold when both are concrete floats.
    f = _uf(op, 2)
    g = _uf(op + "_nan", 2)
    r = f(a.r, b.r)
    key = (op, a.r.get_id(), b.r.get_id(), a.nan.get_id(), b.nan.get_id())
    an, bn = a.nan, b.nan
    pos = lambda x: x.r > 0
    neg = lambda x: x.r < 0
    zero = lambda x: x.r == 0
    pinf = lambda x: x.r == PINF
    ninf = lambda x: x.r == NINF
    inf = lambda x: z3.Or(x.r == PINF, x.r == NINF)
    if op == "add":
        newnan = z3.Or(z3.And(pinf(a), ninf(b)), z3.And(ninf(a), pinf(b)))
    elif op == "sub":
        newnan = z3.Or(z3.And(pinf(a), pinf(b)), z3.And(ninf(a), ninf(b)))
    elif op == "mul":
        newnan = z3.Or(z3.And(zero(a), inf(b)), z3.And(inf(a), zero(b)))
    else:
        newnan = z3.Or(z3.And(zero(a), zero(b)), z3.And(inf(a), inf(b)))
    nan = z3.simplify(z3.Or(an, bn, newnan))
    res = SF(r, nan, minf=True)
    ok = z3.Not(nan)
    ax = [z3.And(NINF <= r, r <= PINF)]
    if c.qscopes:
        # inside a quantifier body only the range fact is kept (dropping theorems is sound on both the hypothesis and
        # the goal side, and keeps the quantified formulas small); element-wise facts are available at witnesses
        c.axiom(key, ax[0])
        _mono_axioms(c, op)
        return res
    if op in ("add", "sub"):
        bb = b if op == "add" else SF(z3.If(b.r == PINF, NINF, z3.If(b.r == NINF, PINF, -b.r)), b.nan)
        ax += [
            z3.Implies(z3.And(ok, z3.Or(pinf(a), pinf(bb))), r == PINF),
            z3.Implies(z3.And(ok, z3.Or(ninf(a), ninf(bb))), r == NINF),
            # identities
            z3.Implies(z3.And(ok, zero(bb)), r == a.r),
            z3.Implies(z3.And(ok, zero(a)), r == bb.r),
            # the rounded sum lies on the same side of each operand as the exact sum
            z3.Implies(z3.And(ok, bb.r >= 0), r >= a.r),
            z3.Implies(z3.And(ok, bb.r <= 0), r <= a.r),
            z3.Implies(z3.And(ok, a.r >= 0), r >= bb.r),
            z3.Implies(z3.And(ok, a.r <= 0), r <= bb.r),
            # x - x == 0 for finite x ; a + b == 0 only if a == -b
            z3.Implies(z3.And(ok, z3.Not(inf(a)), z3.Not(inf(bb)), a.r == -bb.r), r == 0),
            z3.Implies(z3.And(ok, z3.Not(inf(a)), z3.Not(inf(bb)), a.r > -bb.r), r >= 0),
            z3.Implies(z3.And(ok, z3.Not(inf(a)), z3.Not(inf(bb)), a.r < -bb.r), r <= 0),
            # Sterbenz-free weak fact: sum of two non-negatives with one positive is positive
            z3.Implies(z3.And(ok, a.r > 0, bb.r >= 0), r > 0),
            z3.Implies(z3.And(ok, a.r >= 0, bb.r > 0), r > 0),
            z3.Implies(z3.And(ok, a.r < 0, bb.r <= 0), r < 0),
            z3.Implies(z3.And(ok, a.r <= 0, bb.r < 0), r < 0),
        ]
    elif op == "mul":
        ax += [
            z3.Implies(z3.And(ok, z3.Or(z3.And(pos(a), pos(b)), z3.And(neg(a), neg(b)))), r >= 0),
            z3.Implies(z3.And(ok, z3.Or(z3.And(pos(a), neg(b)), z3.And(neg(a), pos(b)))), r <= 0),
            z3.Implies(z3.And(ok, z3.Or(zero(a), zero(b))), r == 0),
            z3.Implies(z3.And(ok, inf(a), z3.Not(zero(b))), inf(res)),
            z3.Implies(z3.And(ok, inf(b), z3.Not(zero(a))), inf(res)),
            z3.Implies(z3.And(ok, z3.Or(z3.And(pos(a), pos(b)), z3.And(neg(a), neg(b))), z3.Or(inf(a), inf(b))), r == PINF),
            z3.Implies(z3.And(ok, z3.Or(z3.And(pos(a), neg(b)), z3.And(neg(a), pos(b))), z3.Or(inf(a), inf(b))), r == NINF),
            z3.Implies(z3.And(ok, b.r == 1), r == a.r),
            z3.Implies(z3.And(ok, a.r == 1), r == b.r),
            # scaling by a factor >= 1 (resp. in [0, 1]) does not shrink (resp. grow) the magnitude: the exact product is on the
            # right side of the other operand, which is representable, and rounding is monotone
            z3.Implies(z3.And(ok, a.r >= 1, b.r >= 0), r >= b.r),
            z3.Implies(z3.And(ok, a.r >= 1, b.r <= 0), r <= b.r),
            z3.Implies(z3.And(ok, b.r >= 1, a.r >= 0), r >= a.r),
            z3.Implies(z3.And(ok, b.r >= 1, a.r <= 0), r <= a.r),
            z3.Implies(z3.And(ok, a.r >= 0, a.r <= 1, b.r >= 0), r <= b.r),
            z3.Implies(z3.And(ok, b.r >= 0, b.r <= 1, a.r >= 0), r <= a.r),
            z3.Implies(z3.And(ok, b.r == -1, z3.Not(inf(a))), r == -a.r),
            z3.Implies(z3.And(ok, a.r == -1, z3.Not(inf(b))), r == -b.r),
        ]
    else:  # div
        ax += [
            z3.Implies(z3.And(ok, zero(a)), r == 0),
            z3.Implies(z3.And(ok, inf(b)), r == 0),
            z3.Implies(z3.And(ok, z3.Or(z3.And(pos(a), pos(b)), z3.And(neg(a), neg(b)))), r >= 0),
            z3.Implies(z3.And(ok, z3.Or(z3.And(pos(a), neg(b)), z3.And(neg(a), pos(b)))), r <= 0),
            z3.Implies(z3.And(ok, b.r == 1), r == a.r),
            z3.Implies(z3.And(ok, z3.Not(inf(a)), z3.Not(zero(a)), a.r == b.r), r == 1),
        ]
    c.axiom(key, z3.And(*ax))
    _mono_axioms(c, op)
    return res


def _mono_axioms(c, op):
    """Monotonicity of correctly rounded arithmetic (quantified, E-matching on pairs of applications)."""
    if ("mono", op) in c.axiom_keys:
        return
    f = _uf(op, 2)
    a, b, a2, b2 = z3.Reals("vcx_a vcx_b vcx_a2 vcx_b2")
    rng4 = z3.And(*[z3.And(NINF <= v, v <= PINF) for v in (a, b, a2, b2)])
    inf_ = lambda v: z3.Or(v == PINF, v == NINF)
    # monotonicity of correctly rounded arithmetic on the extended reals, wherever neither result is NaN
    if op == "add":
        nonan = z3.And(*[z3.Not(z3.Or(z3.And(x == PINF, y == NINF), z3.And(x == NINF, y == PINF))) for x, y in ((a, b), (a2, b2))])
        body = z3.Implies(z3.And(rng4, nonan, a <= a2, b <= b2), f(a, b) <= f(a2, b2))
    elif op == "sub":
        nonan = z3.And(*[z3.Not(z3.Or(z3.And(x == PINF, y == PINF), z3.And(x == NINF, y == NINF))) for x, y in ((a, b), (a2, b2))])
        body = z3.Implies(z3.And(rng4, nonan, a <= a2, b >= b2), f(a, b) <= f(a2, b2))
    elif op == "mul":
        nonan = z3.And(*[z3.Not(z3.Or(z3.And(x == 0, inf_(y)), z3.And(inf_(x), y == 0))) for x, y in ((a, b), (a2, b2))])
        body = z3.Implies(z3.And(rng4, nonan, a >= 0, a == a2, b <= b2), f(a, b) <= f(a2, b2))
    else:
        nonan = z3.And(*[z3.Not(z3.Or(z3.And(x == 0, y == 0), z3.And(inf_(x), inf_(y)))) for x, y in ((a, b), (a2, b2))])
        body = z3.Implies(z3.And(rng4, nonan, b > 0, b == b2, a <= a2), f(a, b) <= f(a2, b2))
    c.axiom(("mono", op), z3.ForAll([a, b, a2, b2], body, patterns=[z3.MultiPattern(f(a, b), f(a2, b2))]))
    if op in ("add", "mul"):
        # IEEE addition and multiplication are commutative
        c.axiom(("comm", op), z3.ForAll([a, b], f(a, b) == f(b, a), patterns=[f(a, b)]))


def fsqrt(x):
    x = SF.lift(x)
    c = cur()
    if c.fmodel == "REAL":
        if x.minf:
            c.oblige("real.operand_finite", z3.Or(x.nan, z3.And(x.r != PINF, x.r != NINF)), kind="side")
        key = ("sqrtv", x.r.get_id(), x.nan.get_id())
        if key in c.ghost:
            return c.ghost[key]
        s = z3.Real(c.fresh_name("sqrt"))
        # exact root of a non-negative argument; NaN for a negative one (as numpy does, with a warning)
        c.axiom(("sqrt", x.r.get_id()), z3.And(s >= 0, z3.Implies(x.r >= 0, s * s == x.r), NINF < s, s < PINF))
        nan = z3.simplify(z3.Or(x.nan, x.r < 0))
        c.ghost[key] = SF(s, nan, False)
        return c.ghost[key]
    f = _uf("sqrt", 1)
    r = f(x.r)
    nan = z3.simplify(z3.Or(x.nan, x.r < 0))
    ok = z3.Not(nan)
    c.axiom(("sqrt", x.r.get_id()), z3.And(
        NINF <= r, r <= PINF, z3.Implies(ok, r >= 0), z3.Implies(z3.And(ok, x.r == 0), r == 0),
        z3.Implies(z3.And(ok, x.r == PINF), r == PINF), z3.Implies(z3.And(ok, x.r > 0), r > 0),
        z3.Implies(z3.And(ok, x.r == 1), r == 1), z3.Implies(z3.And(ok, x.r < PINF), r < PINF)))
    if ("mono", "sqrt") not in c.axiom_keys:
        a, b = z3.Reals("vcx_a vcx_b")
        c.axiom(("mono", "sqrt"), z3.ForAll([a, b], z3.Implies(z3.And(0 <= a, a <= b), f(a) <= f(b)),
                                             patterns=[z3.MultiPattern(f(a), f(b))]))
    return SF(r, nan, minf=True)


# ---- order-only operations (exact) ------------------------------------------------------------
def ite(cond, a, b):
    """Value-level if-then-else on floats / ints / bools (no fork)."""
    ct = tobool(cond)
    ct = z3.simplify(ct)
    if z3.is_true(ct):
        return a
    if z3.is_false(ct):
        return b
    if isinstance(a, SB) or isinstance(b, SB) or isinstance(a, bool) and isinstance(b, bool):
        return SB(z3.If(ct, tobool(a), tobool(b)))
    if isinstance(a, SI) or isinstance(b, SI) or (isinstance(a, int) and isinstance(b, int)):
        return SI(z3.If(ct, it(a), it(b)))
    a, b = SF.lift(a), SF.lift(b)
    return SF(z3.If(ct, a.r, b.r), z3.simplify(z3.If(ct, a.nan, b.nan)), a.minf or b.minf)


def py_max2(a, b):
    """Python builtin max(a, b): returns b iff b > a (so NaN handling is positional)."""
    if isinstance(a, SI) or isinstance(b, SI):
        if not isinstance(a, (SF, float)) and not isinstance(b, (SF, float)):
            return SI(z3.If(it(b) > it(a), it(b), it(a)))
    a, b = SF.lift(a), SF.lift(b)
    return ite(b > a, b, a)


def py_min2(a, b):
    if isinstance(a, SI) or isinstance(b, SI):
        if not isinstance(a, (SF, float)) and not isinstance(b, (SF, float)):
            return SI(z3.If(it(b) < it(a), it(b), it(a)))
    a, b = SF.lift(a), SF.lift(b)
    return ite(b < a, b, a)


def np_max2(a, b):
    """numpy maximum: NaN-propagating."""
    a, b = SF.lift(a), SF.lift(b)
    return SF(z3.If(a.r >= b.r, a.r, b.r), z3.simplify(z3.Or(a.nan, b.nan)), a.minf or b.minf)


def np_min2(a, b):
    a, b = SF.lift(a), SF.lift(b)
    return SF(z3.If(a.r <= b.r, a.r, b.r), z3.simplify(z3.Or(a.nan, b.nan)), a.minf or b.minf)


def feq(a, b):
    """Bitwise-ish identity of two floats as a z3 term (same NaN-ness and same value)."""
    a, b = SF.lift(a), SF.lift(b)
    return z3.And(a.nan == b.nan, z3.Or(a.nan, a.r == b.r))


def is_scalar_sym(x):
    return isinstance(x, (SF, SI, SB))
