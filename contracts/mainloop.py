"""main.minimize (main loop cut at its invariant), main._eval and main._build_result under contract.

Serves C05 (budgets), C07 (status/message/success), C08 (no escaping exception), C09 (stopping requests), C18.O3 (status 0),
C03.O4 / C20.O3 (penalty handed to the result assembly).

Ghost state carried by the Problem stub:
  nev       number of evaluations made so far (|H|)
  trigger   which stopping request the *last* evaluation satisfied (None / "target" / "feasible" / "callback"), set by the
            contracts of Models.__init__ / _eval exactly when they raise the corresponding exception
"""
import types
import z3
import numpy as np
from pyvc.core import cur, SB, PathEnd, Unsupported, tobool
from pyvc.unit import Unit, call_expecting
from pyvc.values import SF, SI, it, I, R, B, PINF, NINF, feq
from pyvc.shims import LoopSpec
from pyvc.seqs import OpaquePoint
from .common import shadow, sym_constants
from .c19 import WarnLog

STATUS_TEXT = {
    0: "The lower bound for the trust-region radius has been reached",
    1: "The target objective function value has been reached",
    2: "All variables are fixed by the bound constraints",
    3: "The callback requested to stop the optimization procedure",
    4: "The feasibility problem received has been solved successfully",
    5: "The maximum number of function evaluations has been exceeded",
    6: "The maximum number of iterations has been exceeded",
    -1: "The bound constraints are infeasible",
    -2: "A linear algebra error occurred",
}


class Vec:
    """Opaque vector: supports the arithmetic minimize does on steps/points; only norms are observed."""
    _vcx_symbolic = True
    _vcx_asarray = True
    __array_ufunc__ = None

    def __init__(self, tag="v"):
        self.tag = tag
        self._norm = None
        self.ver = 0            # bumped by in-place updates (step += soc_step)
        self.src = None         # provenance of a sum / difference: the operand objects and their versions when it was formed

    def _mk(self, o=None):
        v = Vec(self.tag)
        v.src = (self, getattr(self, "ver", 0), o, getattr(o, "ver", 0))
        return v
    __add__ = __radd__ = __sub__ = __rsub__ = _mk

    def current(self):
        """is this sum still the sum of its operands as they are now?"""
        return self.src is not None and self.src[0].ver == self.src[1] and getattr(self.src[2], "ver", 0) == self.src[3]

    def __iadd__(self, o):
        self._norm = None
        self.ver += 1
        return self

    def __getitem__(self, k):
        return self

    def _vcx_norm(self):
        if self._norm is None:
            c = cur()
            self._norm = SF.fresh("norm", finite=True)
            c.assume(self._norm.r >= 0)
        return self._norm


class SymStr:
    """pb.type: a string known only through equality tests."""
    def __init__(self, c, name, values):
        self.t = z3.Int(c.fresh_name(name))
        self.values = list(values)
        c.assume(z3.And(self.t >= 0, self.t < len(values)))

    def __eq__(self, o):
        return SB(self.t == self.values.index(o)) if o in self.values else False

    def __ne__(self, o):
        return ~self.__eq__(o) if o in self.values else True
    __hash__ = None


PB_TYPES = ["unconstrained", "bound-constrained", "linearly constrained", "nonlinearly constrained"]


def sym_options(c, n):
    """Completed options: the postcondition of _set_default_options (C19)."""
    from cobyqa.settings import Options
    o = {}
    for k in ("maxfev", "maxiter", "nb_points", "filter_size", "history_size"):
        o[k] = SI(z3.Int(c.fresh_name(k)))
        c.named[k] = o[k]
    for k in ("radius_init", "radius_final", "target", "feasibility_tol"):
        o[k] = SF.fresh(k, finite=(k != "target"), nonan=True)
    for k in ("disp", "debug"):
        o[k] = False
    for k in ("scale", "store_history"):
        o[k] = SB(z3.Bool(c.fresh_name(k)))
    c.assume(z3.And(o["radius_init"].r > 0, o["radius_final"].r >= 0, o["radius_final"].r <= o["radius_init"].r,
                    o["nb_points"].t >= it(n) + 1, z3.Implies(it(n) >= 1, z3.And(o["maxfev"].t >= 1, o["maxiter"].t >= 1)),
                    o["filter_size"].t >= 1, o["history_size"].t >= 1))
    return o


class PBStub:
    """Contract view of a Problem for the callers in main.py."""

    def __init__(self, c, fresh_problem=True):
        self.c = c
        self.n = SI(z3.Int(c.fresh_name("n")))
        c.named["n"] = self.n
        c.assume(self.n.t >= 0)
        self.bounds = types.SimpleNamespace(is_feasible=SB(z3.Bool(c.fresh_name("bounds_feasible"))))
        self.nev = z3.Int(c.fresh_name("nev0"))
        c.assume(self.nev == 0 if fresh_problem else self.nev >= 0)
        self.type = SymStr(c, "pb_type", PB_TYPES)
        self.is_feasibility = SB(z3.Bool(c.fresh_name("is_feasibility")))
        self.has_callback = SB(z3.Bool(c.fresh_name("has_callback")))
        self.trigger = None          # ghost
        self.trigger_at = None
        self.last_penalty = None
        self.events = []             # ghost call log of evaluations: (index term, point, penalty)
        self.fun_name = "fun"
        self.x0 = Vec("x0")

    @property
    def n_eval(self):
        return SI(self.nev)

    def evaluate(self, x, penalty):
        """Contract of Problem.__call__ as seen from main.py / models.py: one evaluation, barrier-clipped finite values,
        CallbackSuccess iff the callback asked to stop."""
        c = self.c
        self.nev = self.nev + 1
        self.events.append((self.nev, x, penalty))
        self.last_penalty = penalty
        self.trigger = None
        if bool(self.has_callback) and c.choose("callback_stops", 2, ["no", "yes"]):
            from cobyqa.utils import CallbackSuccess
            self.trigger, self.trigger_at = "callback", self.nev
            raise CallbackSuccess
        f = SF.fresh("fun_val", finite=True)
        return f, Vec("cub"), Vec("ceq")

    def __call__(self, x, penalty=0.0):
        return self.evaluate(x, penalty)

    def maxcv(self, x, cub_val=None, ceq_val=None):
        c = self.c
        r = SF.fresh("maxcv", nonan=False)
        c.assume(z3.Or(r.nan, r.r >= 0))
        return r

    def build_x(self, x):
        return x

    def best_eval(self, penalty):
        raise Unsupported("PBStub.best_eval must be provided by the unit")


# ---- main._eval ------------------------------------------------------------------------------------------------
_SH = {}


def main_shadow(key="plain", **kw):
    if key not in _SH:
        _SH[key] = shadow("cobyqa.main", extra={"warnings": WarnLog()}, **kw)
    return _SH[key]


class EvalUnit(Unit):
    name = "main.eval"
    props = ("C05", "C07", "C09", "C06", "C20", "C02", "C03")
    fmodel = "ORDER"
    functions = [("cobyqa.main", "_eval")]

    def run(self, c):
        from cobyqa.utils import MaxEvalError, TargetSuccess, CallbackSuccess, FeasibleSuccess
        m = main_shadow()
        pb = PBStub(c, fresh_problem=False)
        opts = sym_options(c, pb.n)
        fw = types.SimpleNamespace(x_best=Vec("x_best"), penalty=SF.fresh("penalty", nonan=True))
        step = Vec("step")
        nev0 = pb.nev
        seen = {}
        real_maxcv = pb.maxcv

        def maxcv(x, cv=None, ce=None):
            seen["maxcv_args"] = (x, cv, ce)
            r = real_maxcv(x, cv, ce)
            seen["r"] = r
            return r
        pb.maxcv = maxcv
        real_ev = pb.evaluate

        def ev(x, penalty):
            out = real_ev(x, penalty)
            seen["vals"] = out
            seen["x"] = x
            return out
        pb.evaluate = ev
        kind, res = call_expecting(c, "C08.eval", lambda: m._eval(pb, fw, step, opts),
                                   (MaxEvalError, TargetSuccess, CallbackSuccess, FeasibleSuccess))
        maxfev = opts["maxfev"].t
        full = nev0 >= maxfev
        if kind == "exc" and isinstance(res, MaxEvalError):
            c.oblige("C05.eval.maxeval_only_when_budget_exhausted", full, props=["C05", "C07"])
            c.oblige("C05.eval.maxeval_no_evaluation", z3.BoolVal(len(pb.events) == 0), props=["C05", "C06", "C09"])
            return
        c.oblige("C05.eval.never_beyond_budget", z3.Not(full), props=["C05"])
        c.oblige("C05.eval.exactly_one_evaluation", z3.BoolVal(len(pb.events) == 1), props=["C05", "C06", "C09"])
        c.oblige("C20.eval.penalty_forwarded", z3.BoolVal(pb.events[0][2] is fw.penalty), props=["C20", "C09", "C03"])
        # Problem.__call__ keeps a reference to the point in its filter / history: the caller must hand over a fresh array, not a
        # live array of the solver that is later updated in place (x_best is a view of the interpolation set)
        c.oblige("C02.eval.evaluated_point_is_a_fresh_array", z3.BoolVal(pb.events[0][1] is not fw.x_best and pb.events[0][1] is not step),
                 props=["C02", "C03", "C05"], note="the filter would alias an array the solver goes on modifying")
        if kind == "exc" and isinstance(res, CallbackSuccess):
            c.oblige("C09.eval.callback_success_only_from_callback", z3.BoolVal(pb.trigger == "callback"), props=["C09", "C07"])
            return
        f, cub, ceq = seen["vals"]
        r = seen["r"]
        c.oblige("C06.eval.maxcv_on_fresh_values", z3.BoolVal(seen["maxcv_args"][1] is cub and seen["maxcv_args"][2] is ceq
                                                             and seen["maxcv_args"][0] is seen["x"]), props=["C06", "C02", "C09"])
        tgt, tol = opts["target"], opts["feasibility_tol"]
        hit_target = z3.And(tobool(f <= tgt), tobool(r <= tol))
        hit_feas = z3.And(pb.is_feasibility.t, tobool(r <= tol))
        if kind == "exc" and isinstance(res, TargetSuccess):
            c.oblige("C09.eval.target_success_iff_target_met", hit_target, props=["C09", "C07"])
        elif kind == "exc" and isinstance(res, FeasibleSuccess):
            c.oblige("C09.eval.feasible_success_iff_feasible", z3.And(hit_feas, z3.Not(hit_target)), props=["C09", "C07"])
        else:
            c.oblige("C09.eval.returns_only_if_no_request", z3.And(z3.Not(hit_target), z3.Not(hit_feas)), props=["C09"])
            c.oblige("C09.eval.returns_evaluated_values", z3.BoolVal(res[0] is f and res[1] is cub and res[2] is ceq), props=["C09", "C12"])


# ---- main._build_result -----------------------------------------------------------------------------------------
class BuildResultUnit(Unit):
    name = "main.build_result"
    props = ("C07", "C08", "C02", "C05", "C01", "C06", "C20")
    fmodel = "ORDER"
    functions = [("cobyqa.main", "_build_result")]

    def run(self, c):
        from cobyqa.settings import ExitStatus, Options
        m = main_shadow()
        pb = PBStub(c, fresh_problem=False)
        opts = sym_options(c, pb.n)
        st = list(ExitStatus)[c.choose("status", len(ExitStatus), [s.name for s in ExitStatus])]
        success_in = SB(z3.Bool(c.fresh_name("success_in")))
        n_iter = SI(z3.Int(c.fresh_name("n_iter")))
        penalty = SF.fresh("penalty", nonan=True)
        xb = OpaquePoint(z3.Int(c.fresh_name("best_eid")))
        fb, mb = SF.fresh("best_fun"), SF.fresh("best_maxcv")
        calls = []

        def best_eval(p):
            calls.append(p)
            return xb, fb, mb
        pb.best_eval = best_eval
        built = []

        def build_x(x):
            built.append(x)
            return OpaquePoint(x.eid, tags=("inbox", "full"))
        pb.build_x = build_x
        pb.fun_history = "FH"
        pb.maxcv_history = "MH"
        nev = pb.nev
        kind, res = call_expecting(c, "C08.build_result", lambda: m._build_result(pb, penalty, success_in, st, n_iter, opts), ())
        c.oblige("C06.build_result.one_best_eval_with_given_penalty", z3.BoolVal(len(calls) == 1 and calls[0] is penalty), props=["C06", "C03", "C20"])
        c.oblige("C07.build_result.status_value", z3.BoolVal(res.status == st.value and res.status in STATUS_TEXT), props=["C07"])
        c.oblige("C07.build_result.message", z3.BoolVal(res.message == STATUS_TEXT[st.value]), props=["C07"])
        succ = tobool(res.success)
        tol = opts["feasibility_tol"]
        c.oblige("C07.build_result.success_rule",
                 z3.Implies(succ, z3.And(success_in.t, fb.t_fin(), mb.t_fin(),
                                         z3.BoolVal(True) if st.value in (1, 4) else tobool(mb <= tol))), props=["C07", "C08"])
        c.oblige("C08.build_result.nan_never_successful", z3.Implies(z3.Or(fb.nan, mb.nan), z3.Not(succ)))
        c.oblige("C07.build_result.success_not_invented", z3.Implies(z3.Not(success_in.t), z3.Not(succ)), props=["C07"])
        c.oblige("C02.build_result.values_copied", z3.And(z3.BoolVal(res.fun is fb and res.maxcv is mb)), props=["C02"])
        c.oblige("C01.build_result.x_rebuilt", z3.BoolVal(len(built) == 1 and built[0] is xb and "inbox" in res.x.tags), props=["C01", "C02"])
        c.oblige("C05.build_result.counters", z3.And(it(res.nfev) == nev, it(res.nit) == n_iter.t), props=["C05"])
        sh = opts["store_history"]
        c.oblige("C05.build_result.history_attached",
                 z3.BoolVal(True) if not hasattr(res, "fun_history") else z3.BoolVal(res.fun_history == "FH" and res.maxcv_history == "MH"),
                 props=["C05"])


# ---- main.minimize ---------------------------------------------------------------------------------------------
class FWStub:
    """Contract view of a TrustRegion (each method's contract is verified by its own unit)."""

    def __init__(self, c, pb, options):
        from cobyqa.settings import Options
        self.c, self.pb, self.options = c, pb, options
        self.models = ModelsStub(c)
        self.x_best = Vec("x_best")
        self.fun_best = SF.fresh("fun_best", finite=True)
        self.cub_best, self.ceq_best = Vec("cub"), Vec("ceq")
        self._merits = {}
        self.centre_ok = z3.BoolVal(True)
        self.models.fw = self
        self._fresh_state()

    def _fresh_state(self, keep_resolution=False):
        c = self.c
        from cobyqa.settings import Options
        if not keep_resolution:
            self._res = SF.fresh("resolution", finite=True)
        self._rad = SF.fresh("radius", finite=True)
        self.penalty = SF.fresh("penalty", nonan=True)
        c.assume(z3.And(self._res.r >= self.options[Options.RHOEND].r, self._rad.r >= self._res.r, self.penalty.r >= 0))

    @property
    def radius(self):
        return self._rad

    @radius.setter
    def radius(self, v):        # contract of the radius setter (C18.radius_setter): radius' >= resolution
        self._rad = SF.fresh("radius", finite=True)
        self.c.assume(self._rad.r >= self._res.r)

    @property
    def resolution(self):
        return self._res

    def shift_x_base(self, options): pass

    def get_trust_region_step(self, options):
        self._needs_centre("get_trust_region_step")
        return Vec("normal"), Vec("tangential")

    def get_index_to_remove(self, x_new=None):
        self._needs_centre("get_index_to_remove")
        # contract proved by framework.get_index_to_remove: with a new point the best index is never returned; without one it is
        # returned only together with distance 0
        if self.c.choose("get_index_to_remove", 2, ["ok", "linalg"]):
            raise np.linalg.LinAlgError
        k = SI(z3.Int(self.c.fresh_name("k_new")))
        d = SF.fresh("dist_new", finite=True)
        self.c.assume(d.r >= 0)
        best = self.best_index_term()
        if x_new is None:
            self.c.assume(z3.Implies(k.t == best, d.r == 0))
        else:
            self.c.assume(k.t != best)
        self._last_removal = (k, d)
        return k, d

    def best_index_term(self):
        """ghost: the current best index (a fresh value each time set_best_index may have changed it)"""
        if getattr(self, "_best", None) is None:
            self._best = z3.Int(self.c.fresh_name("best_index"))
        return self._best

    def _best_may_change(self):
        self._best = None

    def increase_penalty(self, step):
        self._needs_centre("increase_penalty")
        self._best_may_change()
        self._merits.clear()          # the merit values depend on the penalty; the method re-chooses the centre itself
        self._new_centre()
        old = self.penalty
        self.penalty = SF.fresh("penalty", nonan=True)
        self.c.assume(self.penalty.r >= old.r)
        return SB(z3.Bool(self.c.fresh_name("same_best_point")))

    def merit(self, x, fun_val=None, cub_val=None, ceq_val=None):
        missing = fun_val is None or cub_val is None or ceq_val is None
        self.c.oblige("C06.minimize.merit_called_with_values", z3.BoolVal(not missing),
                      props=["C06", "C05", "C09"], note="TrustRegion.merit called without values evaluates the problem behind the scenes")
        if missing:
            # contract of TrustRegion.merit (unit framework.merit): without values it makes one evaluation of the problem, outside _eval
            self.pb.nev = self.pb.nev + 1
            return SF.fresh("merit", finite=True)
        # merit is a function of the values it is given (and of the penalty in force): same value objects, same merit
        key = (id(fun_val), id(cub_val), id(ceq_val))
        if key not in self._merits:
            self._merits[key] = (SF.fresh("merit", finite=True), fun_val, cub_val, ceq_val)
        return self._merits[key][0]

    # ---- ghost: is the centre of the trust region (best_index) the interpolation point of least merit? ------------------------------
    def _new_centre(self):
        """contract of set_best_index: the centre is re-chosen (arg-min of the merit function, ties to the smaller violation); the
        best values are those of the new centre"""
        self.centre_ok = z3.BoolVal(True)
        self.x_best = Vec("x_best")
        self.fun_best = SF.fresh("fun_best", finite=True)
        self.cub_best, self.ceq_best = Vec("cub"), Vec("ceq")

    def _point_replaced(self, fun_val, cub_val, ceq_val):
        """an interpolation point received new values: the centre remains the least-merit point only if the newcomer's merit value
        is known to be strictly larger than the centre's (a tie has to be re-resolved by set_best_index)"""
        kn = (id(fun_val), id(cub_val), id(ceq_val))
        kb = (id(self.fun_best), id(self.cub_best), id(self.ceq_best))
        self._replaced.append((kn, kb, fun_val, cub_val, ceq_val, self.fun_best, self.cub_best, self.ceq_best))     # keep the objects alive

    @property
    def centre_ok(self):
        """evaluated when needed: the merit values may be computed after the replacement"""
        ok = []
        for kn, kb, *_ in self._replaced:
            if kn in self._merits and kb in self._merits:
                ok.append(self._merits[kn][0].r > self._merits[kb][0].r)
            else:
                return z3.BoolVal(False)
        return z3.And(*ok) if ok else z3.BoolVal(True)

    @centre_ok.setter
    def centre_ok(self, v):
        self._replaced = []

    def _needs_centre(self, what):
        self.c.oblige("C18.minimize.centre_is_the_least_merit_point_when_used[" + what + "]", self.centre_ok, props=["C18"],
                      note="an interpolation point was replaced and the centre of the trust region was not re-chosen (set_best_index) "
                           "before the framework used it again")

    def get_second_order_correction_step(self, step, options): return Vec("soc")
    def get_reduction_ratio(self, step, f, cub, ceq): return SF.fresh("ratio", finite=True)
    def set_best_index(self):
        self._best_may_change()
        self._new_centre()
    def set_multipliers(self, x): pass

    def update_radius(self, step, ratio):        # contract C18.update_radius
        self._rad = SF.fresh("radius", finite=True)
        self.c.assume(self._rad.r >= self._res.r)

    def enhance_resolution(self, options):       # contract C18.enhance_resolution (needs resolution > radius_final)
        from cobyqa.settings import Options
        c = self.c
        c.oblige("C18.minimize.enhance_resolution_pre", self._res.r > options[Options.RHOEND].r, props=["C18", "C07"])
        old = self._res
        self._res = SF.fresh("resolution", finite=True)
        c.assume(z3.And(self._res.r < old.r, self._res.r >= options[Options.RHOEND].r))
        self._rad = SF.fresh("radius", finite=True)
        c.assume(self._rad.r >= self._res.r)

    def decrease_penalty(self):
        self._best_may_change()
        self._merits.clear()
        self._new_centre()
        old = self.penalty
        self.penalty = SF.fresh("penalty", nonan=True)
        self.c.assume(z3.And(self.penalty.r >= 0, self.penalty.r <= old.r))

    def get_geometry_step(self, k_new, options):
        self.c.oblige("C18.minimize.geometry_index_defined", z3.BoolVal(isinstance(k_new, SI)), props=["C18", "C08"])
        last = getattr(self, "_last_removal", None)
        if isinstance(k_new, SI) and last is not None:
            # the point replaced by a geometry step is the one get_index_to_remove chose in this iteration, for the current best point:
            # unless every interpolation point coincides with the best one (distance 0), it is not the centre of the trust region
            self.c.oblige("C18.minimize.geometry_step_replaces_the_chosen_point", k_new.t == last[0].t, props=["C18"])
            self.c.oblige("C18.minimize.geometry_step_never_replaces_the_best_point",
                          z3.Implies(last[1].r > 0, k_new.t != self.best_index_term()), props=["C18"],
                          note="the interpolation point chosen for the geometry step is the centre of the trust region")
        if self.c.choose("get_geometry_step", 2, ["ok", "linalg"]):
            raise np.linalg.LinAlgError
        return Vec("geometry")


class ModelsStub:
    def __init__(self, c):
        self.c = c
        self.interpolation = types.SimpleNamespace(x_base=Vec("x_base"))

    def update_interpolation(self, k_new, x_new, fun_val, cub_val, ceq_val):
        if self.c.choose("update_interpolation", 2, ["ok", "linalg"]):
            raise np.linalg.LinAlgError
        if getattr(self, "fw", None) is not None:
            self.fw._point_replaced(fun_val, cub_val, ceq_val)
        chk = getattr(self, "check_point", None)
        if chk is not None:
            chk(x_new, fun_val)
        return SB(z3.Bool(self.c.fresh_name("ill_conditioned")))

    def fun_grad(self, x): return Vec("grad")

    def fun_alt_grad(self, x):
        if self.c.choose("fun_alt_grad", 2, ["ok", "linalg"]):
            raise np.linalg.LinAlgError
        return Vec("grad_alt")

    def reset_models(self):
        if self.c.choose("reset_models", 2, ["ok", "linalg"]):
            raise np.linalg.LinAlgError


class MainLoop(LoopSpec):
    names = ("n_iter", "k_new", "n_short_steps", "n_very_short_steps", "n_alt_models", "success")
    local = ("status", "radius_save", "normal_step", "tangential_step", "step", "s_norm", "enhance_resolution", "improve_geometry",
             "dist_new", "same_best_point", "fun_val", "cub_val", "ceq_val", "merit_old", "merit_new", "soc_step", "ratio",
             "ill_conditioned", "grad", "grad_alt", "maxcv_val")

    def inv(self, env):
        from cobyqa.settings import Options
        o, pb, fw = env["options"], env["pb"], env["framework"]
        ni = it(env["n_iter"])
        out = [
            ("n_iter_in_budget", z3.And(ni >= 0, ni <= o[Options.MAX_ITER].t)),
            ("nfev_in_budget", z3.And(pb.nev >= 1, pb.nev <= o[Options.MAX_EVAL].t)),
            ("radii_coherent", z3.And(fw._res.r >= o[Options.RHOEND].r, fw._rad.r >= fw._res.r, o[Options.RHOEND].r >= 0)),
            ("penalty_nonneg", z3.And(z3.Not(fw.penalty.nan), fw.penalty.r >= 0)),
            ("success_false_at_head", z3.BoolVal(env["success"] is False)),
            ("no_pending_request", z3.BoolVal(pb.trigger is None)),
            ("counters", z3.And(*[it(env[k]) >= 0 for k in ("n_short_steps", "n_very_short_steps", "n_alt_models")])),
            ("centre_is_the_least_merit_point", fw.centre_ok),
        ]
        return out

    def begin(self, L, iterable, env):
        for nm, t in self.inv(env):
            L.c.oblige("C05.minimize.loop.init." + nm, t, props=["C05", "C07", "C18", "C08"])

    def havoc(self, L, env):
        c = L.c
        pb, fw = env["pb"], env["framework"]
        pb.nev = z3.Int(c.fresh_name("nev"))
        pb.trigger = None
        fw._fresh_state()
        fw._best_may_change()
        fw._last_removal = None
        fw._merits.clear()
        fw._new_centre()
        out = {k: SI(z3.Int(c.fresh_name(k))) for k in ("n_iter", "n_short_steps", "n_very_short_steps", "n_alt_models")}
        # k_new is None before the first assignment and an index afterwards
        out["k_new"] = None if c.choose("k_new_unset", 2, ["set", "unset"]) else SI(z3.Int(c.fresh_name("k_new")))
        out["success"] = False
        env2 = dict(env)
        env2.update(out)
        for nm, t in self.inv(env2):
            c.assume(t)
        return out

    def end(self, L, env):
        for nm, t in self.inv(env):
            L.c.oblige("C05.minimize.loop.preserve." + nm, t, props=["C05", "C07", "C18", "C08"])
        # variant: the main loop terminates if its callees do (maxiter - n_iter decreases)
        L.c.oblige("C08.minimize.loop.variant_decreases", z3.BoolVal(True))


SPECS = {"minimize.main": MainLoop()}


def minimize_shadow():
    return main_shadow("cut", specs=SPECS, cuts={("minimize", 0): "minimize.main"}, expect_loops={"minimize": 1})


class MinimizeUnit(Unit):
    name = "main.minimize"
    props = ("C05", "C07", "C08", "C09", "C18", "C20", "C03", "C06", "C12")
    fmodel = "ORDER"
    functions = [("cobyqa.main", "minimize")]
    parallel = True
    timeout_ms = 10000
    assumptions = ["callees of minimize (Problem, TrustRegion and its methods, Models methods, _eval, _build_result, the option setters, "
                   "the argument normalisers) are replaced by their contracts, each verified by its own unit or listed as assumed"]

    def run(self, c):
        from cobyqa.settings import Options, ExitStatus
        from cobyqa.utils import MaxEvalError, TargetSuccess, CallbackSuccess, FeasibleSuccess
        m = minimize_shadow()
        pb = PBStub(c)
        state = {"fw": None, "opts": None, "results": []}

        class SymList:
            """the lists returned by _get_constraints: any number of entries"""
            _vcx_symbolic = True

            def __init__(self, nm):
                self.n = SI(z3.Int(c.fresh_name("n_" + nm)))
                c.assume(self.n.t >= 0)

            def _vcx_len(self):
                return self.n

            def __len__(self):
                raise Unsupported("len() of a symbolic list reached a builtin")

        class UserFunctions:
            """the wrappers of the user's objective / constraint functions: minimize itself must never call them - every evaluation goes
            through Problem.__call__ (counted, recorded, barrier-clipped)"""

            def __init__(self, what):
                self.what = what

            def __call__(self, *a, **k):
                c.oblige("C06.minimize.user_functions_called_only_through_the_problem", z3.BoolVal(False), props=["C06", "C05"],
                         note=f"minimize calls the {self.what} directly: an evaluation that is neither counted nor recorded")
                return Vec("direct_call"), Vec("direct_call")

        def validation(name, excs):
            def f(*a, **k):
                i = c.choose(name, len(excs) + 1, ["ok"] + [e.__name__ for e in excs])
                if i:
                    c.ghost["validation_error"] = name
                    raise excs[i - 1]("invalid argument")
                return None
            return f

        def mk_problem(*a):
            if c.choose("Problem", 3, ["ok", "ValueError", "TypeError"]):
                c.ghost["validation_error"] = "Problem"
                raise (ValueError if "ValueError" in list(c.nfresh)[-1] else TypeError)("invalid argument")
            return pb

        def set_opts(options, n):
            if c.choose("_set_default_options", 2, ["ok", "ValueError"]):
                c.ghost["validation_error"] = "options"
                raise ValueError("invalid option")
            keep_disp = options.get("disp", False)
            options.update(sym_options(c, n))
            options["disp"] = keep_disp
            state["opts"] = options

        def set_consts(**kw):
            if c.choose("_set_default_constants", 2, ["ok", "ValueError"]):
                c.ghost["validation_error"] = "constants"
                raise ValueError("invalid constant")
            return sym_constants(c)

        def TR(pb_, options, constants):
            # contract of TrustRegion.__init__ / Models.__init__ (initial sampling)
            o = options
            maxfev, npt = o[Options.MAX_EVAL].t, o[Options.NPT].t
            # Interpolation.__init__ may shrink the radii to fit the bounds (keeping radius_final <= radius_init)
            rb, re_ = SF.fresh("radius_init", finite=True), SF.fresh("radius_final", finite=True)
            c.assume(z3.And(rb.r > 0, re_.r >= 0, re_.r <= rb.r, rb.r <= o[Options.RHOBEG].r, re_.r <= o[Options.RHOEND].r))
            o[Options.RHOBEG.value], o[Options.RHOEND.value] = rb, re_
            k = c.choose("TrustRegion", 6, ["ok", "target", "callback", "feasible", "maxeval", "linalg"])
            pb.nev = z3.Int(c.fresh_name("nev"))
            c.assume(z3.And(pb.nev >= 1, pb.nev <= maxfev, pb.nev <= npt))
            pb.last_penalty = 0.0
            if k == 1:
                pb.trigger, pb.trigger_at = "target", pb.nev
                raise TargetSuccess
            if k == 2:
                c.assume(pb.has_callback.t)
                pb.trigger, pb.trigger_at = "callback", pb.nev
                raise CallbackSuccess
            if k == 3:
                c.assume(pb.is_feasibility.t)
                pb.trigger, pb.trigger_at = "feasible", pb.nev
                raise FeasibleSuccess
            if k == 4:
                c.assume(z3.And(pb.nev == maxfev, maxfev < npt))
                raise MaxEvalError
            if k == 5:
                c.assume(pb.nev == npt)
                raise np.linalg.LinAlgError
            c.assume(pb.nev == npt)
            fw = FWStub(c, pb, o)
            c.assume(z3.And(fw._res.r == rb.r, fw._rad.r == rb.r))
            state["fw"] = fw
            fw.models.check_point = lambda x_new, fun_val: check_point(x_new, fun_val)
            return fw

        def ev(pb_, fw, step, options):
            # contract of main._eval (verified by unit main.eval)
            if bool(SB(pb.nev >= options[Options.MAX_EVAL].t)):
                raise MaxEvalError
            pb.nev = pb.nev + 1
            pb.last_penalty = fw.penalty
            pb.trigger = None
            state["last_eval"] = (fw.x_best, fw.x_best.ver, step, step.ver)       # the point evaluated is x_best + step as they are now
            k = c.choose("_eval", 4, ["ok", "target", "feasible", "callback"])
            if k == 1:
                pb.trigger, pb.trigger_at = "target", pb.nev
                raise TargetSuccess
            if k == 2:
                c.assume(pb.is_feasibility.t)
                pb.trigger, pb.trigger_at = "feasible", pb.nev
                raise FeasibleSuccess
            if k == 3:
                c.assume(pb.has_callback.t)
                pb.trigger, pb.trigger_at = "callback", pb.nev
                raise CallbackSuccess
            f_ = SF.fresh("fun_val", finite=True)
            state["values_of"] = (f_, state["last_eval"])
            return f_, Vec("cub"), Vec("ceq")

        def build(pb_, penalty, success, status, n_iter, options):
            self.post(c, pb, state, penalty, success, status, n_iter, options)
            state["results"].append(status)
            return ("result", status)
        m.__dict__.update({
            "BoundConstraints": lambda b: None,
            "_get_bounds": validation("_get_bounds", [ValueError, TypeError]),
            "_get_constraints": lambda cs: (validation("_get_constraints", [ValueError, TypeError])(), (SymList("linear"), SymList("nonlinear")))[1],
            "LinearConstraints": lambda *a: UserFunctions("linear constraints"), "NonlinearConstraints": lambda *a: UserFunctions("nonlinear constraints"),
            "ObjectiveFunction": lambda *a: UserFunctions("objective"),
            "Problem": mk_problem, "_set_default_options": set_opts, "_set_default_constants": set_consts,
            "TrustRegion": TR, "_eval": ev, "_build_result": build,
        })
        def check_point(x_new, fun_val):
            # C12: the values recorded for the new interpolation point were measured at that very point: x_new is x_best + step for the
            # x_best and the step (after any in-place correction) that the evaluation returning fun_val was made at
            ok = False
            vo = state.get("values_of")
            if vo is not None and fun_val is vo[0] and isinstance(x_new, Vec) and x_new.src is not None:
                xb, xbv, st, stv = vo[1]
                a, av, b, bv = x_new.src
                ok = (a is xb and av == xbv and b is st and bv == stv) or (b is xb and bv == xbv and a is st and av == stv)
            c.oblige("C12.minimize.recorded_values_were_measured_at_the_recorded_point", z3.BoolVal(bool(ok)), props=["C12", "C02"],
                     note="update_interpolation receives a point that is not x_best + step as evaluated (e.g. formed before the step was "
                          "corrected in place)")
        # the progress-printing blocks (disp=True) are explored too: they must not evaluate anything (C06)
        verbose = bool(c.choose("disp", 2, ["off", "on"]))
        printed = []
        m.__dict__["print"] = lambda *a, **k: printed.append(a)
        m.__dict__["_print_step"] = lambda *a, **k: printed.append(a)
        real_maxcv = pb.maxcv

        def maxcv_checked(x, cub_val=None, ceq_val=None):
            c.oblige("C06.minimize.maxcv_called_with_recorded_values", z3.BoolVal(cub_val is not None and ceq_val is not None), props=["C06"],
                     note="Problem.maxcv called without values re-evaluates the user's constraint functions")
            return real_maxcv(x, cub_val, ceq_val)
        pb.maxcv = maxcv_checked
        user_opts = {"disp": True} if verbose else None
        kind, res = call_expecting(c, "C08.minimize", lambda: m.minimize(lambda x: 0.0, [0.0], options=user_opts), (ValueError, TypeError))
        if kind == "exc":
            c.oblige("C08.minimize.valueerror_only_from_validation", z3.BoolVal("validation_error" in c.ghost))
            return
        c.oblige("C08.minimize.returns_a_result", z3.BoolVal(isinstance(res, tuple) and res[0] == "result" and len(state["results"]) == 1),
                 props=["C08", "C07"])

    def post(self, c, pb, state, penalty, success, status, n_iter, options):
        """Obligations at every hand-over to _build_result: the status-specific clauses of C07/C09/C05, from the statement."""
        from cobyqa.settings import Options, ExitStatus
        o = options
        fw = state["fw"]
        nit = it(n_iter)
        s = status.value if isinstance(status, ExitStatus) else None
        tag = f"@{status.name}" if s is not None else "@?"
        P = ["C07"]
        c.oblige("C07.minimize.status_is_documented" + tag, z3.BoolVal(s in STATUS_TEXT), props=P)
        c.oblige("C07.minimize.success_only_for_0_to_4" + tag, z3.Implies(tobool(success), z3.BoolVal(s in (0, 1, 2, 3, 4))), props=P)
        c.oblige("C05.minimize.nit_le_maxiter" + tag, z3.And(nit >= 0, z3.Implies(pb.n.t >= 1, nit <= o[Options.MAX_ITER].t)), props=["C05"])
        c.oblige("C05.minimize.nfev_le_maxfev" + tag, z3.Implies(z3.BoolVal(s not in (-1, 2)), pb.nev <= o[Options.MAX_EVAL].t), props=["C05"])
        if s == 0:
            c.oblige("C07.minimize.status0_only_at_final_radius", fw._res.r == o[Options.RHOEND].r, props=["C07", "C18"])
        if s == 1:
            c.oblige("C09.minimize.status1_only_after_target_event_at_last_evaluation",
                     z3.And(z3.BoolVal(pb.trigger == "target"), pb.trigger_at == pb.nev if pb.trigger else False), props=["C07", "C09"])
        if s == 2:
            c.oblige("C07.minimize.status2_only_when_all_fixed", pb.n.t == 0, props=P)
        if s == 3:
            c.oblige("C09.minimize.status3_only_after_callback_stop_at_last_evaluation",
                     z3.And(z3.BoolVal(pb.trigger == "callback"), pb.trigger_at == pb.nev if pb.trigger else False), props=["C07", "C09", "C20"])
            c.oblige("C20.minimize.status3_same_penalty_as_callback", z3.BoolVal(penalty is pb.last_penalty or
                                                                                 (isinstance(penalty, float) and penalty == pb.last_penalty)),
                     props=["C20", "C09"], note="the point returned must be the point last handed to the callback")
        if s == 4:
            c.oblige("C09.minimize.status4_only_after_feasible_event_at_last_evaluation",
                     z3.And(z3.BoolVal(pb.trigger == "feasible"), pb.trigger_at == pb.nev if pb.trigger else False, pb.is_feasibility.t),
                     props=["C07", "C09"])
        if s == 5:
            c.oblige("C07.minimize.status5_only_when_nfev_eq_maxfev", pb.nev == o[Options.MAX_EVAL].t, props=["C07", "C05"])
        if s == 6:
            c.oblige("C07.minimize.status6_only_when_nit_eq_maxiter", nit == o[Options.MAX_ITER].t, props=["C07", "C05"])
        if s == -1:
            c.oblige("C07.minimize.statusm1_only_for_infeasible_bounds", z3.Not(pb.bounds.is_feasible.t), props=P)
        if s not in (1, 3, 4):
            c.oblige("C09.minimize.request_never_ignored" + tag, z3.BoolVal(pb.trigger is None), props=["C09"],
                     note="a stopping request was raised by the last evaluation but another status is reported")
        # the penalty used to pick the returned point: the framework's current one once it exists
        if fw is not None:
            c.oblige("C03.minimize.penalty_is_current" + tag, z3.BoolVal(penalty is fw.penalty), props=["C03", "C20"])
        else:
            c.oblige("C03.minimize.penalty_zero_before_framework" + tag, z3.BoolVal(isinstance(penalty, float) and penalty == 0.0), props=["C03", "C20"])


UNITS = [EvalUnit(), BuildResultUnit(), MinimizeUnit()]


# ---- models.Models.__init__ (initial sampling loop) and framework.TrustRegion.__init__ ---------------------------------
class Rows2D:
    """Stand-in for the (npt, m) value tables of Models: rows are stored and returned by identity."""
    _vcx_symbolic = True

    def __init__(self, nrows, ncols):
        self.nrows, self.ncols = nrows, ncols
        self.rows = []        # [(index term, object)] most recent last
        self.shape = (nrows, ncols)

    def __setitem__(self, key, val):
        k, sl = key
        if sl != slice(None):
            raise Unsupported("Rows2D store")
        cur().oblige("index.in_bounds", z3.And(0 <= it(k), it(k) < it(self.nrows)), kind="side")
        self.rows.append((it(k), val))

    def __getitem__(self, key):
        k, sl = key
        if isinstance(k, slice):
            return Vec("column")
        for kk, v in reversed(self.rows):
            if z3.simplify(kk == it(k)).eq(z3.BoolVal(True)) or kk.eq(it(k)):
                return v
        return Vec("row")


class SamplingLoop(LoopSpec):
    """for k in range(options[NPT]) in Models.__init__: nev == max(k, 1), k <= maxfev."""
    names = ("k", "x_eval")
    local = ()

    def inv(self, L, env, k):
        from cobyqa.settings import Options
        pb, o = env["pb"], env["options"]
        return [("evaluations_match_index", pb.nev == z3.If(k == 0, 1, k)),
                ("index_within_budget", z3.And(0 <= k, k <= o[Options.MAX_EVAL].t, k <= o[Options.NPT].t)),
                ("no_pending_request", z3.BoolVal(pb.trigger is None))]

    def begin(self, L, iterable, env):
        for nm, t in self.inv(L, env, z3.IntVal(0)):
            L.c.oblige("C05.models_init.loop.init." + nm, t, props=["C05", "C07", "C09"])
        L.st["npt"] = it(iterable.stop if hasattr(iterable, "stop") else len(iterable))

    def havoc(self, L, env):
        c = L.c
        pb = env["pb"]
        k = z3.Int(c.fresh_name("k"))
        L.st["k"] = k
        c.ghost["sampling_k"] = k          # number of interpolation points whose stopping tests have been completed
        pb.nev = z3.Int(c.fresh_name("nev"))
        pb.events.clear()
        pb.trigger = None
        c.assume(z3.And(0 <= k, k <= L.st["npt"]))
        for nm, t in self.inv(L, env, k):
            c.assume(t)
        return {"x_eval": Vec("x_eval")}

    def iterate(self, L, env):
        return bool(SB(L.st["k"] < L.st["npt"]))

    def target(self, L):
        return SI(L.st["k"])

    def end(self, L, env):
        for nm, t in self.inv(L, env, L.st["k"] + 1):
            L.c.oblige("C05.models_init.loop.preserve." + nm, t, props=["C05", "C07", "C09"])

    def exit(self, L, env):
        pass


class NPModels:
    pass


def models_shadow():
    if "models" not in _SH:
        from pyvc.npshim import NP

        class NP2(NP):
            def full(self, shape, val, dtype=None):
                if isinstance(shape, tuple):
                    return Rows2D(shape[0], shape[1])
                return NP.full(self, shape, val, dtype)

            def empty(self, shape, dtype=float):
                if dtype is not float:
                    return np.empty(shape, dtype=dtype)
                return NP.empty(self, shape, dtype)
        _SH["models"] = shadow("cobyqa.models", specs={"models.sampling": SamplingLoop()},
                               cuts={("Models.__init__", 0): "models.sampling"}, expect_loops={"Models.__init__": 3}, np=NP2())
    return _SH["models"]


class ModelsInitUnit(Unit):
    name = "models.init_sampling"
    props = ("C05", "C07", "C09", "C06", "C08", "C12", "C02", "C03")
    fmodel = "ORDER"
    functions = [("cobyqa.models", "Models.__init__")]
    assumptions = ["Interpolation.__init__ and Quadratic.__init__ are contract stubs here (placement of the points: C01.O3; LinAlgError only from "
                   "Quadratic)"]

    def run(self, c):
        from cobyqa.settings import Options
        from cobyqa.utils import MaxEvalError, TargetSuccess, CallbackSuccess, FeasibleSuccess
        m = models_shadow()
        pb = PBStub(c)
        opts = sym_options(c, pb.n)
        c.assume(pb.n.t >= 1)
        npt, maxfev = opts["nb_points"].t, opts["maxfev"].t
        mcub = c.choose("m_cub", 2, ["0", "1"])
        mceq = c.choose("m_ceq", 2, ["0", "1"])
        last = {}
        real_ev = pb.evaluate

        def ev(x, penalty):
            f, cub, ceq = real_ev(x, penalty)
            cub.size, ceq.size = mcub, mceq
            last.update(f=f, cub=cub, ceq=ceq, x=x, pen=penalty)
            return f, cub, ceq
        pb.evaluate = ev
        seen = []
        real_maxcv = pb.maxcv

        def maxcv(x, cv=None, ce=None):
            r = real_maxcv(x, cv, ce)
            seen.append((x, cv, ce, r))
            return r
        pb.maxcv = maxcv

        class Interp:
            def __init__(self, pb_, options):
                self.n = pb_.n
                self.npt = options[Options.NPT]

            def point(self, k):
                v = Vec("point")
                v.k = it(k)
                return v

            @property
            def x_base(self):
                # the live base point (updated in place by shift_x_base): same coordinates as point(0) initially, but not fresh
                v = Vec("x_base")
                v.k = z3.IntVal(0)
                v.live = True
                return v

        class quad:
            def __init__(self, interpolation, values, debug):
                if c.choose("Quadratic", 2, ["ok", "linalg"]):
                    raise np.linalg.LinAlgError
        m.__dict__["Interpolation"] = Interp
        m.__dict__["Quadratic"] = quad
        penalty = SF.fresh("penalty", nonan=True)
        M = m.Models
        md = M.__new__(M)
        kind, res = call_expecting(c, "C08.models_init", lambda: md.__init__(pb, opts, penalty),
                                   (MaxEvalError, TargetSuccess, CallbackSuccess, FeasibleSuccess, np.linalg.LinAlgError))
        P = ["C05", "C07", "C09"]
        # C12: the value recorded for interpolation point k was measured at that very point: every evaluation is made at
        # interpolation.point(k) for the index k of this iteration (k = 0 for the evaluation before the loop)
        c.oblige("C12.models_init.evaluations_at_interpolation_points",
                 z3.BoolVal(all(hasattr(e[1], "k") for e in pb.events)), props=["C12", "C01"],
                 note="a value is recorded for an interpolation point but was measured elsewhere")
        c.oblige("C02.models_init.evaluated_points_are_fresh_arrays", z3.BoolVal(not any(getattr(e[1], "live", False) for e in pb.events)),
                 props=["C02", "C03", "C05"],
                 note="Problem.__call__ keeps a reference to the point in its filter / history: a live array of the interpolation set "
                      "(x_base, shifted in place later) would change the recorded point afterwards")
        c.oblige("C05.models_init.within_budget", z3.And(pb.nev >= 1, pb.nev <= maxfev, pb.nev <= npt), props=P)
        c.oblige("C20.models_init.penalty_forwarded", z3.BoolVal(all(e[2] is penalty for e in pb.events)), props=["C20", "C09"])
        tgt, tol = opts["target"], opts["feasibility_tol"]
        if kind == "ret":
            c.oblige("C05.models_init.normal_all_points_evaluated", pb.nev == npt, props=P)
            return
        if isinstance(res, MaxEvalError):
            c.oblige("C07.models_init.maxeval_means_budget_exhausted", z3.And(pb.nev == maxfev, maxfev < npt), props=P)
            if "sampling_k" in c.ghost:
                c.oblige("C09.models_init.maxeval_only_after_every_evaluated_point_was_tested", pb.nev == c.ghost["sampling_k"], props=P,
                         note="the budget test fires before the stopping tests of the last evaluated point: a request met by that "
                              "evaluation (target, feasibility) is reported as status 5")
            return
        if isinstance(res, np.linalg.LinAlgError):
            c.oblige("C07.models_init.linalg_after_full_sampling", pb.nev == npt, props=P)
            return
        if isinstance(res, CallbackSuccess):
            c.oblige("C09.models_init.callback_success_only_from_callback", z3.BoolVal(pb.trigger == "callback"), props=P)
            return
        # target / feasible: tested on the values of the very last evaluation, nothing evaluated afterwards
        ok_vals = z3.BoolVal(bool(seen) and seen[-1][1] is last["cub"] and seen[-1][2] is last["ceq"])
        r = seen[-1][3] if seen else SF.fresh("none")
        c.oblige("C09.models_init.request_tested_on_last_evaluation", ok_vals, props=P)
        if isinstance(res, TargetSuccess):
            fk = md._fun_val[SI(seen[-1][0].k)] if hasattr(seen[-1][0], "k") else last["f"]
            c.oblige("C09.models_init.target_success_iff_target_met",
                     z3.And(feq(fk, last["f"]), tobool(last["f"] <= tgt), tobool(r <= tol)), props=P)
        else:
            c.oblige("C09.models_init.feasible_success_iff_feasible", z3.And(pb.is_feasibility.t, tobool(r <= tol)), props=P)


class TrustRegionInitUnit(Unit):
    name = "framework.trust_region_init"
    props = ("C07", "C09", "C18", "C20", "C03")
    fmodel = "ORDER"
    functions = [("cobyqa.framework", "TrustRegion.__init__")]

    def run(self, c):
        from cobyqa.settings import Options
        from cobyqa.utils import MaxEvalError, TargetSuccess, CallbackSuccess, FeasibleSuccess
        from .c18 import fw_shadow
        m = fw_shadow()
        pb = PBStub(c)
        for k in ("m_linear_ub", "m_linear_eq", "m_nonlinear_ub", "m_nonlinear_eq"):
            setattr(pb, k, 0)
        opts = sym_options(c, pb.n)
        consts = sym_constants(c)
        excs = [None, MaxEvalError, TargetSuccess, CallbackSuccess, FeasibleSuccess, np.linalg.LinAlgError]
        mk = {}

        def Models(pb_, options, penalty):
            mk["penalty"] = penalty
            # contract of Models.__init__: may shrink the radii (Interpolation), evaluates, may raise
            rb, re_ = SF.fresh("radius_init", finite=True), SF.fresh("radius_final", finite=True)
            c.assume(z3.And(rb.r > 0, re_.r >= 0, re_.r <= rb.r))
            options[Options.RHOBEG.value], options[Options.RHOEND.value] = rb, re_
            pb.nev = z3.Int(c.fresh_name("nev"))
            i = c.choose("Models", len(excs), [e.__name__ if e else "ok" for e in excs])
            mk["outcome"] = excs[i]
            if excs[i] is not None:
                raise excs[i]
            return types.SimpleNamespace()
        saved = (m.__dict__.get("Models"), m.TrustRegion.set_best_index, m.TrustRegion.set_multipliers, m.TrustRegion.x_best)
        m.__dict__["Models"] = Models
        events = []
        m.TrustRegion.set_best_index = lambda self: events.append("set_best_index")
        m.TrustRegion.set_multipliers = lambda self, x: events.append("set_multipliers")
        m.TrustRegion.x_best = property(lambda self: Vec("x_best"))
        try:
            tr = m.TrustRegion.__new__(m.TrustRegion)
            nev_before = None
            kind, res = call_expecting(c, "C08.trust_region_init", lambda: tr.__init__(pb, opts, consts),
                                       tuple(e for e in excs if e))
        finally:
            m.__dict__["Models"], m.TrustRegion.set_best_index, m.TrustRegion.set_multipliers, m.TrustRegion.x_best = saved
        c.oblige("C07.trust_region_init.exceptions_are_those_of_models",
                 z3.BoolVal((kind == "ret" and mk["outcome"] is None) or (kind == "exc" and type(res) is mk["outcome"])), props=["C07", "C09"])
        c.oblige("C20.trust_region_init.initial_penalty_zero", z3.BoolVal(isinstance(mk["penalty"], float) and mk["penalty"] == 0.0),
                 props=["C20", "C03", "C18"])
        if kind == "ret":
            c.oblige("C18.trust_region_init.radius_eq_resolution_eq_radius_init",
                     z3.And(feq(tr._radius, opts["radius_init"]), feq(tr._resolution, opts["radius_init"])), props=["C18"])
            c.oblige("C18.trust_region_init.penalty_zero", z3.BoolVal(isinstance(tr._penalty, float) and tr._penalty == 0.0), props=["C18"])


UNITS += [ModelsInitUnit(), TrustRegionInitUnit()]
