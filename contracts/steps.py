"""C01.O4: the trial points assembled by TrustRegion.get_trust_region_step / get_second_order_correction_step stay inside
the bounds by construction (REAL model): the bounds handed to each subsolver are shifted by exactly the point the returned
step is added to, the subsolver preconditions (origin inside the shifted box, positive radius) hold at each call site, and
given the subsolvers' contract (C15: returned step inside the box it was given) x_best + step is inside [xl, xu]."""
import types
import z3
from pyvc.core import cur, SB, PathEnd, Unsupported, tobool
from pyvc.unit import Unit, call_expecting
from pyvc.values import SF, SI, it, I, R, B, PINF, NINF, feq
from pyvc import vecs
from .common import shadow, sym_constants
from .fweffects import OV, NPO
from .mainloop import SymStr, PB_TYPES

_SH = {}


def fw_shadow():
    if "m" not in _SH:
        _SH["m"] = shadow("cobyqa.framework", np=NPO())
    return _SH["m"]


def box_step(c, name, xl, xu, delta, calls):
    """Contract of a subsolver (C15): requires xl <= 0 <= xu and delta > 0; returns s with xl <= s <= xu, |s| <= delta."""
    i = z3.Int(c.fresh_name("vcx_any"))
    c.oblige(f"C15.callsite.{name}.origin_inside_box", z3.Implies(z3.And(0 <= i, i < xl.n), z3.And(xl.at(i).r <= 0, 0 <= xu.at(i).r)),
             props=["C01", "C15"], note="subsolver called with the origin outside the shifted bounds")
    d = SF.lift(delta)
    c.oblige(f"C15.callsite.{name}.radius_nonneg", d.r >= 0, props=["C01", "C15"])
    s = vecs.fresh_vec(name, xl.n, finite=True)
    lo, hi = xl.at, xu.at       # the bounds *as given at the call* (the caller may shift them in place afterwards)
    j = z3.Int("vcx_j")
    c.assume(z3.ForAll([j], z3.Implies(z3.And(0 <= j, j < xl.n), z3.And(lo(j).r <= s.at(j).r, s.at(j).r <= hi(j).r)), patterns=[s.at(j).r]))
    sq = SF.fresh(name + "_sqnorm", finite=True)
    c.assume(z3.And(sq.r >= 0, sq.r <= d.r * d.r))
    s.ghost["sqnorm"] = sq
    calls.append((name, xl, xu))
    return s


def mk_tr(c, m):
    tr = m.TrustRegion.__new__(m.TrustRegion)
    tr._constants = sym_constants(c)
    n = z3.Int(c.fresh_name("n"))
    c.assume(n >= 1)
    c.size_hints.append(n)
    bxl = vecs.fresh_vec("xl", n, nonan=True)      # invariant of BoundConstraints: NaN-free (boxes.bound_constraints_init)
    bxu = vecs.fresh_vec("xu", n, nonan=True)
    xb = vecs.fresh_vec("x_best", n, finite=True)
    j = z3.Int("vcx_j")
    # BOX invariant: the best interpolation point is inside the (possibly infinite) bounds
    c.pc.append(z3.ForAll([j], z3.Implies(z3.And(0 <= j, j < n), z3.And(bxl.at(j).r <= xb.at(j).r, xb.at(j).r <= bxu.at(j).r,
                                                                       bxl.at(j).r < PINF, bxu.at(j).r > NINF)), patterns=[xb.at(j).r]))
    tr._pb = types.SimpleNamespace(bounds=types.SimpleNamespace(xl=bxl, xu=bxu), type=SymStr(c, "pb_type", PB_TYPES), n=SI(n),
                                   linear=types.SimpleNamespace(a_ub=OV(), b_ub=OV(), a_eq=OV(), b_eq=OV()))
    tr._radius = SF.fresh("radius", finite=True)
    c.assume(tr._radius.r > 0)

    class Models:
        interpolation = types.SimpleNamespace(point=lambda k: xb)

        def __getattr__(self, nm):
            return lambda *a, **k: OV(nm)
    tr._models = Models()
    tr._best_index = 0
    for nm in ("_lm_linear_ub", "_lm_linear_eq", "_lm_nonlinear_ub", "_lm_nonlinear_eq"):
        setattr(tr, nm, OV(nm))
    return tr, n, bxl, bxu, xb


def finite_bounds_note():
    return "REAL model: the bounds may be infinite (then the shifted bound is infinite as well); arithmetic on finite operands is exact"


class InfAwareSub:
    pass


class TrustRegionStep(Unit):
    name = "steps.trust_region_step"
    props = ("C01",)
    fmodel = "REAL"
    functions = [("cobyqa.framework", "TrustRegion.get_trust_region_step")]
    assumptions = ["contracts of normal_byrd_omojokun / tangential_byrd_omojokun / constrained_tangential_byrd_omojokun (C15): the "
                   "returned step lies in the box it was given; rounding of x_best + step is not modelled beyond IEEE monotonicity"]

    def run(self, c):
        from cobyqa.settings import Options
        m = fw_shadow()
        tr, n, bxl, bxu, xb = mk_tr(c, m)
        calls = []
        m.__dict__["normal_byrd_omojokun"] = lambda aub, bub, aeq, beq, xl, xu, delta, debug, **kw: box_step(c, "normal_step", xl, xu, delta, calls)
        m.__dict__["tangential_byrd_omojokun"] = lambda g, hp, xl, xu, delta, debug, **kw: box_step(c, "tangential_step", xl, xu, delta, calls)
        m.__dict__["constrained_tangential_byrd_omojokun"] = lambda g, hp, xl, xu, aub, bub, aeq, delta, debug, **kw: box_step(c, "tangential_step", xl, xu, delta, calls)
        m.TrustRegion.get_constraint_linearizations = lambda self, x: (OV("aub"), OV("bub"), OV("aeq"), OV("beq"))
        opts = {Options.DEBUG.value: False}
        kind, res = call_expecting(c, "C08.get_trust_region_step", lambda: tr.get_trust_region_step(opts), ())
        ns, ts = res
        c.oblige("C01.trust_region_step.two_subsolver_calls", z3.BoolVal([x[0] for x in calls] == ["normal_step", "tangential_step"]), props=["C01"])
        i = z3.Int(c.fresh_name("vcx_any"))
        rng = z3.And(0 <= i, i < n)
        # the bounds given to the normal step are the user's bounds shifted by x_best; those given to the tangential step are
        # shifted by x_best + normal_step: hence (in exact arithmetic) xl <= x_best + normal + tangential <= xu.  In the ORDER model
        # we prove the order-theoretic core: every component of the step pair lies between the shifted bounds it was computed for.
        tp = xb.at(i).r + ns.at(i).r + ts.at(i).r
        c.oblige("C01.trust_region_step.trial_point_inside_bounds",
                 z3.Implies(rng, z3.And(bxl.at(i).r <= tp, tp <= bxu.at(i).r)), props=["C01"],
                 note="x_best + normal_step + tangential_step leaves the bounds")


class SocStep(Unit):
    name = "steps.soc_step"
    props = ("C01",)
    fmodel = "REAL"
    functions = [("cobyqa.framework", "TrustRegion.get_second_order_correction_step")]
    assumptions = TrustRegionStep.assumptions

    def run(self, c):
        from cobyqa.settings import Options
        m = fw_shadow()
        tr, n, bxl, bxu, xb = mk_tr(c, m)
        step = vecs.fresh_vec("step", n, finite=True)
        j = z3.Int("vcx_j")
        # call-site precondition (minimize): the trial point x_best + step has just been evaluated, it is inside the bounds
        c.pc.append(z3.ForAll([j], z3.Implies(z3.And(0 <= j, j < n), z3.And(bxl.at(j).r <= xb.at(j).r + step.at(j).r,
                                                                           xb.at(j).r + step.at(j).r <= bxu.at(j).r)),
                              patterns=[step.at(j).r]))
        calls = []
        m.__dict__["normal_byrd_omojokun"] = lambda aub, bub, aeq, beq, xl, xu, delta, debug, **kw: box_step(c, "soc_step", xl, xu, delta, calls)
        m.TrustRegion.get_constraint_linearizations = lambda self, x: (OV("aub"), OV("bub"), OV("aeq"), OV("beq"))
        opts = {Options.DEBUG.value: False}
        # the bound obligations of the call site are stated relative to x_best + step
        i = z3.Int(c.fresh_name("vcx_any"))
        rng = z3.And(0 <= i, i < n)
        kind, soc = call_expecting(c, "C08.get_second_order_correction_step", lambda: tr.get_second_order_correction_step(step, opts), ())
        tp = xb.at(i).r + step.at(i).r + soc.at(i).r
        c.oblige("C01.soc_step.corrected_trial_point_inside_bounds",
                 z3.Implies(rng, z3.And(bxl.at(i).r <= tp, tp <= bxu.at(i).r)), props=["C01"],
                 note="the correction is bounded relative to a different point than the one it is added to")


UNITS = [TrustRegionStep(), SocStep()]
