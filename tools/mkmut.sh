#!/bin/sh
# tools/mkmut.sh <file-relative-to-repo> <python-regex-old> <new> <out.patch>: build a one-line mutant patch (scratch dirs removed)
F="$1"; OLD="$2"; NEW="$3"; OUT="$4"
D=$(mktemp -d /tmp/vcx-mk.XXXXXX); trap 'rm -rf "$D"' EXIT
mkdir -p "$D/a" "$D/b"; cp -r /repo/cobyqa "$D/a/cobyqa"; cp -r /repo/cobyqa "$D/b/cobyqa"
python3 - "$D/b/$F" "$OLD" "$NEW" <<'PY' || exit 1
import sys,re
p,old,new=sys.argv[1:4]
s=open(p).read()
n=len(re.findall(old,s))
if n!=1: print("pattern matches",n,"times"); sys.exit(1)
open(p,'w').write(re.sub(old,new,s,count=1))
PY
( cd "$D" && diff -ru a b > "$OUT" ); echo "wrote $OUT"
