"""Constraint-violation chain under contract: NonlinearConstraints.violation/maxcv, Problem.violation/maxcv,
BoundConstraints.violation/maxcv, LinearConstraints.violation/maxcv  (C06 no hidden user call, C02 reported maxcv, C17.O2).

Spec of the reported violation (from the statement; N3 for equalities):
  viol(values) = the sequence  max(c_ub_j, 0)  ++  |c_eq_k|
  maxcv        = max(0, bound part (only when the bounds are inconsistent), linear part, viol(values)), NaN-propagating
and computing it calls no user function when the values are supplied.
"""
import types
import z3
from pyvc.core import cur, SB, PathEnd, Unsupported, tobool
from pyvc.unit import Unit, call_expecting
from pyvc.values import SF, SI, it, I, R, B, PINF, NINF, feq, np_max2
from pyvc import vecs
from pyvc.seqs import OpaquePoint
from .common import shadow

_SH = {}


def pb_shadow():
    if "m" not in _SH:
        _SH["m"] = shadow("cobyqa.problem")
    return _SH["m"]


def is_max_of(c, r, parts, name, props):
    """Obligations: r == max(0, all elements of the vectors in `parts`) with numpy's NaN propagation."""
    r = SF.lift(r)
    anynan = []
    for k, v in enumerate(parts):
        i = z3.Int(c.fresh_name("vcx_any"))
        e = v.at(i)
        c.oblige(f"{name}.upper_bound[{k}]", z3.Implies(z3.And(v.indom(i), z3.Not(r.nan)), z3.And(z3.Not(e.nan), r.r >= e.r)), props=props)
    c.oblige(f"{name}.nonneg_or_nan", z3.Or(r.nan, r.r >= 0), props=props)
    # attained: r is 0 or one of the elements (witnesses come from the reductions on the path)
    cands = list(c.witnesses)
    att = [r.r == 0]
    nanw = []
    for v in parts:
        for w in cands:
            att.append(z3.And(v.indom(w), z3.Not(v.at(w).nan), v.at(w).r == r.r))
            nanw.append(z3.And(v.indom(w), v.at(w).nan))
    c.oblige(f"{name}.attained", z3.Implies(z3.Not(r.nan), z3.Or(*att)), props=props)
    c.oblige(f"{name}.nan_only_from_nan_value", z3.Implies(r.nan, z3.Or(*nanw) if nanw else z3.BoolVal(False)), props=props)


class NonlinearViolation(Unit):
    name = "violation.nonlinear"
    props = ("C06", "C02", "C17", "C01", "C03")
    fmodel = "ORDER"
    functions = [("cobyqa.problem", "NonlinearConstraints.violation"), ("cobyqa.problem", "NonlinearConstraints.maxcv")]

    def run(self, c):
        m = pb_shadow()
        NC = m.NonlinearConstraints
        nc = NC.__new__(NC)
        calls = []

        class PC:
            """assumed contract of scipy's PreparedConstraint: violation(x) calls the user function (unless x is the cached point)"""
            def violation(self, x):
                calls.append(x)
                return vecs.fresh_vec("scipy_violation", 1)
        nc.pcs = [PC()]
        mu, me = z3.Int(c.fresh_name("m_ub")), z3.Int(c.fresh_name("m_eq"))
        c.assume(z3.And(mu >= 0, me >= 0))
        c.size_hints += [mu, me]
        cub, ceq = vecs.fresh_vec("cub", mu), vecs.fresh_vec("ceq", me)
        given = bool(SB(z3.Bool(c.fresh_name("values_given"))))

        def stub_call(self, x):
            calls.append(x)
            return cub, ceq
        saved = NC.__call__
        NC.__call__ = stub_call
        x = OpaquePoint(z3.IntVal(0))
        use_maxcv = c.choose("entry", 2, ["violation", "maxcv"])
        try:
            if use_maxcv:
                kind, res = call_expecting(c, "C08.nonlinear_violation", lambda: nc.maxcv(x, cub, ceq) if given else nc.maxcv(x), ())
            else:
                kind, res = call_expecting(c, "C08.nonlinear_violation", lambda: nc.violation(x, cub, ceq) if given else nc.violation(x), ())
        finally:
            NC.__call__ = saved
        c.oblige("C06.nonlinear_violation.no_user_call_when_values_given",
                 z3.BoolVal(len(calls) == (0 if given else 1) and all(a is x for a in calls)), props=["C06", "C01"],
                 note=f"{len(calls)} evaluations of the constraint functions while computing a violation")
        pcub = cub.map(lambda e: np_max2(e, 0.0))
        pceq = ceq.map(lambda e: abs(e))
        if use_maxcv:
            is_max_of(c, res, [pcub, pceq], "C02.nonlinear_maxcv", ["C02", "C17", "C03"])
            return
        if not isinstance(res, vecs.Concat) or len(res.parts) != 2:
            c.oblige("C02.nonlinear_violation.structure", z3.BoolVal(False), props=["C02", "C17"], note="expected concatenate((max(c_ub,0), |c_eq|))")
            return
        for nm, got, exp in (("ub", res.parts[0], pcub), ("eq", res.parts[1], pceq)):
            i = z3.Int(c.fresh_name("vcx_any"))
            c.oblige(f"C02.nonlinear_violation.{nm}_length", z3.And(got.n == exp.n, z3.BoolVal(got.dense())), props=["C02", "C17", "C03"])
            c.oblige(f"C02.nonlinear_violation.{nm}_elements", z3.Implies(z3.And(0 <= i, i < exp.n), feq(got.at(i), exp.at(i))), props=["C02", "C17", "C03"])


class ProblemViolation(Unit):
    name = "violation.problem"
    props = ("C06", "C02", "C01", "C03")
    fmodel = "ORDER"
    functions = [("cobyqa.problem", "Problem.violation"), ("cobyqa.problem", "Problem.maxcv")]

    def run(self, c):
        m = pb_shadow()
        P = m.Problem
        pb = P.__new__(P)
        log = c.log
        nb = z3.Int(c.fresh_name("n_b"))
        nl = z3.Int(c.fresh_name("n_lin"))
        mu, me = z3.Int(c.fresh_name("m_ub")), z3.Int(c.fresh_name("m_eq"))
        c.assume(z3.And(nb >= 0, nl >= 0, mu >= 0, me >= 0))
        c.size_hints += [nb, nl, mu, me]
        bviol = vecs.fresh_vec("bound_violation", nb)
        lviol = vecs.fresh_vec("linear_violation", nl)
        cub, ceq = vecs.fresh_vec("cub", mu), vecs.fresh_vec("ceq", me)
        nlviol = vecs.Concat([cub.map(lambda e: np_max2(e, 0.0)), ceq.map(lambda e: abs(e))])
        feas = SB(z3.Bool(c.fresh_name("bounds_feasible")))
        has_lin = c.choose("linear_pcs", 2, ["none", "some"])
        has_nl = c.choose("nonlinear_pcs", 2, ["none", "some"])
        given = bool(SB(z3.Bool(c.fresh_name("values_given"))))

        class Bnd:
            is_feasible = feas

            def violation(self, x):
                log.append(("bounds.violation", x))
                return bviol

        class Lin:
            pcs = [object()] * has_lin

            def violation(self, x):
                log.append(("linear.violation", x))
                return lviol

        class NL:
            pcs = [object()] * has_nl

            def __call__(self, xf):
                log.append(("con", xf))
                return cub, ceq

            def violation(self, x, cv=None, ce=None):
                log.append(("nonlinear.violation", x, cv, ce))
                return nlviol
        pb._bounds, pb._linear, pb._nonlinear = Bnd(), Lin(), NL()
        x = OpaquePoint(z3.IntVal(0))
        xf = OpaquePoint(z3.IntVal(0), tags=("inbox", "full"))

        def build_x(p):
            log.append(("build_x", p))
            return xf
        pb.build_x = build_x
        kind, res = call_expecting(c, "C08.problem_maxcv", lambda: pb.maxcv(x, cub, ceq) if given else pb.maxcv(x), ())
        cons = [e for e in log if e[0] == "con"]
        c.oblige("C06.problem_maxcv.no_user_call_when_values_given",
                 z3.BoolVal(len(cons) == (1 if (has_nl and not given) else 0)), props=["C06"],
                 note=f"{len(cons)} constraint evaluations inside Problem.maxcv")
        c.oblige("C01.problem_maxcv.constraints_evaluated_at_rebuilt_point", z3.BoolVal(all(e[1] is xf for e in cons)), props=["C01", "C06"])
        nlv = [e for e in log if e[0] == "nonlinear.violation"]
        c.oblige("C02.problem_maxcv.nonlinear_part_uses_the_values",
                 z3.BoolVal(all(e[2] is cub and e[3] is ceq for e in nlv) and len(nlv) == has_nl), props=["C02", "C06"])
        parts = []
        if not tobool(feas).eq(z3.BoolVal(True)):
            pass
        bparts = [bviol]
        lin = [lviol] if has_lin else []
        nlp = list(nlviol.parts) if has_nl else []
        r = SF.lift(res)
        # spec: max(0, [bounds if infeasible], linear, nonlinear) - stated with the bound part guarded by infeasibility
        for k, v in enumerate(lin + nlp):
            i = z3.Int(c.fresh_name("vcx_any"))
            e = v.at(i)
            c.oblige(f"C02.problem_maxcv.upper_bound[{k}]", z3.Implies(z3.And(v.indom(i), z3.Not(r.nan)), z3.And(z3.Not(e.nan), r.r >= e.r)), props=["C02", "C03"])
        i = z3.Int(c.fresh_name("vcx_any"))
        e = bviol.at(i)
        c.oblige("C02.problem_maxcv.upper_bound[bounds]",
                 z3.Implies(z3.And(z3.Not(feas.t), bviol.indom(i), z3.Not(r.nan)), z3.And(z3.Not(e.nan), r.r >= e.r)), props=["C02", "C03"])
        c.oblige("C02.problem_maxcv.nonneg_or_nan", z3.Or(r.nan, r.r >= 0), props=["C02", "C03"])
        att = [r.r == 0]
        nanw = []
        for v in lin + nlp:
            for w in c.witnesses:
                att.append(z3.And(v.indom(w), z3.Not(v.at(w).nan), v.at(w).r == r.r))
                nanw.append(z3.And(v.indom(w), v.at(w).nan))
        for w in c.witnesses:
            att.append(z3.And(z3.Not(feas.t), bviol.indom(w), z3.Not(bviol.at(w).nan), bviol.at(w).r == r.r))
            nanw.append(z3.And(z3.Not(feas.t), bviol.indom(w), bviol.at(w).nan))
        c.oblige("C02.problem_maxcv.attained", z3.Implies(z3.Not(r.nan), z3.Or(*att)), props=["C02", "C03"])
        c.oblige("C02.problem_maxcv.nan_only_from_nan_value", z3.Implies(r.nan, z3.Or(*nanw) if nanw else z3.BoolVal(False)), props=["C02", "C03"])


UNITS = [NonlinearViolation(), ProblemViolation()]
