"""Shared pieces of the sidecar contracts: the documented domains of options/constants, shadow loading."""
import z3
from pyvc.core import cur, SB, Unsupported
from pyvc.values import SF, SI, it
from pyvc import shims, transform
from pyvc.npshim import NP

# ---- documented domains of the 20 constants (docstring of minimize + the checks the docs promise) -------
# name -> (kind, lo, lo_strict, hi, hi_strict)   None = unbounded
from .spec_plain import CONST_DOMAINS, CONST_RELATIONS  # noqa: E402,F401
CONST_DEFAULTS = {
    "decrease_radius_factor": 0.5, "increase_radius_factor": 2.0 ** 0.5, "increase_radius_threshold": 2.0,
    "decrease_radius_threshold": 1.4, "decrease_resolution_factor": 0.1, "large_resolution_threshold": 250.0,
    "moderate_resolution_threshold": 16.0, "low_ratio": 0.1, "high_ratio": 0.7, "very_low_ratio": 0.01,
    "penalty_increase_threshold": 1.5, "penalty_increase_factor": 2.0, "short_step_threshold": 0.5,
    "low_radius_factor": 0.1, "byrd_omojokun_factor": 0.8, "threshold_ratio_constraints": 2.0,
    "large_shift_factor": 10.0, "large_gradient_factor": 10.0, "resolution_factor": 2.0, "improve_tcg": True,
}


def in_domain(name, v):
    """z3 term: value proxy `v` lies in the documented domain of constant `name`."""
    kind, lo, los, hi, his = CONST_DOMAINS[name]
    if kind == "b":
        return z3.BoolVal(True)
    v = SF.lift(v)
    cs = [z3.Not(v.nan), v.r > -z3.RealVal(10) ** 400]
    from pyvc.values import PINF, NINF
    cs = [z3.Not(v.nan), NINF < v.r, v.r < PINF]
    if lo is not None:
        cs.append(v.r > lo if los else v.r >= lo)
    if hi is not None:
        cs.append(v.r < hi if his else v.r <= hi)
    return z3.And(*cs)


def relation_holds(consts, rel):
    a, op, b = rel
    x, y = SF.lift(consts[a]), SF.lift(consts[b])
    return x.r < y.r if op == "<" else x.r <= y.r


def constants_valid(consts):
    """The postcondition of main._set_default_constants == the precondition the framework relies on."""
    cs = [in_domain(k, consts[k]) for k in CONST_DOMAINS]
    cs += [relation_holds(consts, r) for r in CONST_RELATIONS]
    return z3.And(*cs)


def sym_constants(c, concrete_improve_tcg=None):
    """A constants dict with arbitrary values satisfying constants_valid."""
    d = {}
    for k, (kind, *_r) in CONST_DOMAINS.items():
        if kind == "b":
            d[k] = SB(z3.Bool(c.fresh_name(k))) if concrete_improve_tcg is None else concrete_improve_tcg
        else:
            d[k] = SF.fresh(k, finite=True)
    c.assume(constants_valid(d))
    return d


# ---- shadow modules ----------------------------------------------------------------------------------
def shadow(modname, specs=None, cuts=None, expect_loops=None, extra=None, np=None):
    inj = shims.base_inject(specs)
    post = dict(shims.builtin_shims())
    post["np"] = np or NP()
    if extra:
        post.update(extra)
    return transform.load_shadow(modname, inj, cuts=cuts, expect_loops=expect_loops, post_inject=post)


class KeyDict(dict):
    """A concrete dict keyed by option / constant names (str-enum keys hash like their values)."""
