"""The clauses of C15 (admissible steps) and C16 (never worse) as run-time contracts on one call of a subproblem solver.
z3-free (NumPy only): used by the bounded units (contracts/subsolvers_bounded.py) and by the native replay of a failing case."""
import numpy as np


def tolstep(delta):
    # "does not exceed the radius beyond rounding": the rotation of the boundary phase normalises its direction with
    # sqrt(|s|^2 |g|^2 - (g.s)^2), whose cancellation amplifies rounding up to the order of sqrt(eps) (seed 3, case 2722 of the
    # constrained solver: relative excess 1.2e-9 with nearly parallel s and g); a logic error gives an excess of order one
    return delta * (1.0 + 1e-7) + 1e-300


def in_bounds(step, xl, xu):
    return bool(np.all(np.minimum(xl, 0.0) <= step) and np.all(step <= np.maximum(xu, 0.0)))


def cauchy_step(g, H, xl, xu, delta):
    """The Cauchy step along the projected gradient: d = -g on the components that are not blocked by a bound active at the origin;
    minimise q(a d) over 0 <= a <= min(first bound met, trust-region radius).  Returns (decrease, step) or (None, None) when the
    segment is unbounded below (cannot happen with a finite radius)."""
    xl = np.minimum(xl, 0.0)
    xu = np.maximum(xu, 0.0)
    free = ((xl < 0) | (g < 0)) & ((xu > 0) | (g > 0))
    d = np.where(free, -g, 0.0)
    if not np.any(d):
        return 0.0, np.zeros_like(g)
    with np.errstate(divide="ignore", invalid="ignore"):
        ab = np.where(d > 0, xu / d, np.where(d < 0, xl / d, np.inf))
    a = min(float(np.min(ab[free])), float(delta / np.linalg.norm(d)))
    gd, curv = g @ d, d @ H @ d
    if curv > 0:
        a = min(a, -gd / curv)
    if not np.isfinite(a):
        return None, None
    p = a * d
    return -(g @ p + 0.5 * p @ H @ p), p


def tangential(d):
    from cobyqa.subsolvers import tangential_byrd_omojokun
    hp = lambda v: d["H"] @ v
    s = tangential_byrd_omojokun(d["grad"], hp, d["xl"], d["xu"], d["delta"], False, improve_tcg=d["improve_tcg"])
    q = d["grad"] @ s + 0.5 * s @ hp(s)
    scale = np.abs(d["grad"]) @ np.abs(s) + 0.5 * np.abs(s) @ np.abs(d["H"]) @ np.abs(s)
    yield "C15.tangential.step_within_bounds", in_bounds(s, d["xl"], d["xu"]) and not np.any(np.isnan(s))
    yield "C15.tangential.norm_within_radius", bool(np.linalg.norm(s) <= tolstep(d["delta"]))
    yield "C16.tangential.model_not_increased", bool(q <= 1e-12 * scale + 1e-300)
    # "at least the decrease of the projected-gradient Cauchy step" (up to rounding, relative to the size of the terms of q there)
    cd, p = cauchy_step(d["grad"], d["H"], d["xl"], d["xu"], d["delta"])
    if p is not None and np.all(np.isfinite(p)):
        g = d["grad"]
        sc = np.abs(g) @ np.abs(p) + 0.5 * np.abs(p) @ np.abs(d["H"]) @ np.abs(p)
        ok = bool(-q >= cd - 1e-9 * sc - 1e-300)
        xl, xu = np.minimum(d["xl"], 0.0), np.maximum(d["xu"], 0.0)
        free = ((xl < 0) | (g < 0)) & ((xu > 0) | (g > 0))
        # the solver's first test treats the projected gradient as zero when |g_free|^2 <= 10 EPS n max(1, |g|): an ABSOLUTE threshold
        # for |g| < 1.  Cases below it are reported under their own name (known finding F1: zero step although a decrease exists)
        tiny = float(g[free] @ g[free]) <= 10.0 * np.finfo(float).eps * g.size * max(1.0, float(np.linalg.norm(g)))
        yield ("C16.tangential.cauchy_decrease_below_absolute_gradient_threshold" if tiny else "C16.tangential.cauchy_decrease"), ok


def constrained_tangential(d):
    from cobyqa.subsolvers import constrained_tangential_byrd_omojokun
    hp = lambda v: d["H"] @ v
    s = constrained_tangential_byrd_omojokun(d["grad"], hp, d["xl"], d["xu"], d["aub"], d["bub"], d["aeq"], d["delta"], False,
                                             improve_tcg=d["improve_tcg"])
    q = d["grad"] @ s + 0.5 * s @ hp(s)
    scale = np.abs(d["grad"]) @ np.abs(s) + 0.5 * np.abs(s) @ np.abs(d["H"]) @ np.abs(s)
    ns = np.linalg.norm(s)
    # "up to rounding": relative to the size of the data of each row (|a_i| |s| + |b_i|), not to the possibly cancelling a_i.s
    tol_ub = 1e-9 * (np.linalg.norm(d["aub"], axis=1) * ns + np.abs(d["bub"])) + 1e-300 if d["aub"].size else 0.0
    tol_eq = 1e-8 * (np.abs(d["aeq"]) @ np.abs(s)) + 1e-300 + 1e-9 * ns * np.linalg.norm(d["aeq"], axis=1) if d["aeq"].size else 0.0
    yield "C15.constrained_tangential.step_within_bounds", in_bounds(s, d["xl"], d["xu"]) and not np.any(np.isnan(s))
    yield "C15.constrained_tangential.norm_within_radius", bool(ns <= tolstep(d["delta"]))
    yield "C15.constrained_tangential.inequalities_kept", bool(np.all(d["aub"] @ s <= d["bub"] + tol_ub))
    yield "C15.constrained_tangential.equalities_null_space", bool(np.all(np.abs(d["aeq"] @ s) <= tol_eq))
    yield "C16.constrained_tangential.model_not_increased", bool(q <= 1e-12 * scale + 1e-300)


def normal(d):
    from cobyqa.subsolvers import normal_byrd_omojokun
    bub = d["bub"]
    s = normal_byrd_omojokun(d["aub"], bub, d["aeq"], d["beq"], d["xl"], d["xu"], d["delta"], False, improve_tcg=d["improve_tcg"])
    viol = lambda x: np.sum(np.maximum(d["aub"] @ x - bub, 0.0) ** 2) + np.sum((d["aeq"] @ x - d["beq"]) ** 2)
    v0, v1 = viol(np.zeros(d["n"])), viol(s)
    yield "C15.normal.step_within_bounds", in_bounds(s, d["xl"], d["xu"]) and not np.any(np.isnan(s))
    yield "C15.normal.norm_within_radius", bool(np.linalg.norm(s) <= tolstep(d["delta"]))
    yield "C16.normal.violation_not_increased", bool(v1 <= v0 * (1 + 1e-10) + 1e-300)


def geometry(d):
    from cobyqa.subsolvers import cauchy_geometry, spider_geometry
    const, H = d["const"], d["H"]
    curv = lambda v: v @ H @ v
    q = lambda s: const + d["grad"] @ s + 0.5 * curv(s)
    s = cauchy_geometry(const, d["grad"], curv, d["xl"], d["xu"], d["delta"], False)
    sc = abs(const) + np.abs(d["grad"]) @ np.abs(s) + 0.5 * np.abs(s) @ np.abs(H) @ np.abs(s)
    yield "C15.cauchy_geometry.step_within_bounds", in_bounds(s, d["xl"], d["xu"]) and not np.any(np.isnan(s))
    yield "C15.cauchy_geometry.norm_within_radius", bool(np.linalg.norm(s) <= tolstep(d["delta"]))
    yield "C16.cauchy_geometry.magnitude_not_decreased", bool(abs(q(s)) >= abs(const) - 1e-12 * sc)
    xlc, xuc = np.minimum(d["xl"], 0.0), np.maximum(d["xu"], 0.0)
    up = np.any((d["grad"] > 0) & (xuc > 0)) or np.any((d["grad"] < 0) & (xlc < 0))        # feasible direction increasing q
    down = np.any((d["grad"] < 0) & (xuc > 0)) or np.any((d["grad"] > 0) & (xlc < 0))      # feasible direction decreasing q
    # a feasible first-order direction improving |q|: increase q if const >= 0, decrease it if const <= 0
    ascent = (const >= 0 and up) or (const <= 0 and down)
    fits = np.linalg.norm(np.where(np.isfinite(xlc), xlc, np.inf)) <= d["delta"] and np.linalg.norm(np.where(np.isfinite(xuc), xuc, np.inf)) <= d["delta"]
    if ascent and fits and not np.any(H):
        yield "C16.cauchy_geometry.strict_increase_with_feasible_direction", bool(abs(q(s)) > abs(const))
    s2 = spider_geometry(const, d["grad"], curv, d["xpt"], d["xl"], d["xu"], d["delta"], False)
    sc2 = abs(const) + np.abs(d["grad"]) @ np.abs(s2) + 0.5 * np.abs(s2) @ np.abs(H) @ np.abs(s2)
    yield "C15.spider_geometry.step_within_bounds", in_bounds(s2, d["xl"], d["xu"]) and not np.any(np.isnan(s2))
    yield "C15.spider_geometry.norm_within_radius", bool(np.linalg.norm(s2) <= tolstep(d["delta"]))
    yield "C16.spider_geometry.magnitude_not_decreased", bool(abs(q(s2)) >= abs(const) - 1e-9 * sc2)


CLAUSES = {"tangential": tangential, "constrained_tangential": constrained_tangential, "normal": normal, "geometry": geometry}
