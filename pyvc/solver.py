"""Discharging obligations: z3 first, cvc5 (CLI) on z3's `unknown`."""
import os
import shutil
import subprocess
import tempfile
import time
import z3

CVC5 = shutil.which("cvc5") or "/usr/bin/cvc5"
LAST_MODEL = None


def _model_dict(m):
    out = {}
    for d in m.decls():
        if d.arity() == 0:
            v = m[d]
            out[d.name()] = str(v)
        else:
            s = str(m[d])
            out[d.name()] = s if len(s) < 400 else s[:400] + "..."
    return out


def _cvc5(smt2, timeout_ms):
    if not os.path.exists(CVC5):
        return "unknown"
    with tempfile.NamedTemporaryFile("w", suffix=".smt2", delete=False, dir=os.environ.get("VCX_TMP", None)) as fh:
        fh.write("(set-logic ALL)\n" + smt2)
        path = fh.name
    try:
        p = subprocess.run([CVC5, "--lang", "smt2", f"--tlimit={timeout_ms}", path],
                           capture_output=True, text=True, timeout=timeout_ms / 1000 + 5)
        out = p.stdout.strip().splitlines()
        return out[0].strip() if out else "unknown"
    except Exception:
        return "unknown"
    finally:
        os.unlink(path)


def check_sat(assertions, timeout_ms, use_cvc5=True, seed=0):
    """Returns (verdict, model_dict_or_None, backend, seconds)."""
    t0 = time.time()
    s = z3.Solver()
    s.set(timeout=timeout_ms)
    if seed:
        s.set(random_seed=seed)
    s.add(*assertions)
    r = s.check()
    if r == z3.unsat:
        return "unsat", None, "z3", time.time() - t0
    if r == z3.sat:
        global LAST_MODEL
        LAST_MODEL = s.model()
        return "sat", _model_dict(LAST_MODEL), "z3", time.time() - t0
    # retry z3 with a different configuration
    s2 = z3.Solver()
    s2.set(timeout=timeout_ms)
    s2.set("smt.mbqi", False)
    s2.add(*assertions)
    r = s2.check()
    if r == z3.unsat:
        return "unsat", None, "z3(no-mbqi)", time.time() - t0
    if use_cvc5:
        v = _cvc5(s.to_smt2(), timeout_ms)
        if v == "unsat":
            return "unsat", None, "cvc5", time.time() - t0
        if v == "sat":
            # cvc5 gives no model through this path; re-ask z3 longer for a model is pointless: report sat w/o model
            return "sat", {}, "cvc5", time.time() - t0
    return "unknown", None, "z3+cvc5", time.time() - t0


def discharge(ob, timeout_ms=10000, use_cvc5=True):
    g = ob.goal
    if z3.is_true(g):
        ob.verdict, ob.backend, ob.secs = "unsat", "trivial", 0.0
        return ob
    global LAST_MODEL
    LAST_MODEL = None
    v, m, be, secs = check_sat(list(ob.pc) + [z3.Not(g)], timeout_ms, use_cvc5)
    ob.verdict, ob.model, ob.backend, ob.secs = v, m, be, secs
    ob.zmodel = LAST_MODEL if v == "sat" else None
    return ob
