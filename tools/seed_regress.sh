#!/bin/sh
# tools/seed_regress.sh [name-prefix]: run the property's check against every kept seeded change (scratch copy, removed afterwards);
# every line must show exit=1 with a VIOLATION.
cd "$(dirname "$0")/.."
for d in seeded/${1:-}*/; do
  case "$(basename "$d")" in _*) continue;; esac
  n=$(basename "$d")
  P=$(python3 -c "import json,sys; print(json.load(open('$d/meta.json'))['property'])")
  out=$(tools/mutant.sh "$PWD/$d/patch.diff" "$P" 2>&1)
  v=$(echo "$out" | grep -c "^VIOLATION")
  echo "$n: violations=$v $(echo "$out" | grep '^pyvc' | sed 's/.*undecided/undecided/')"
done
