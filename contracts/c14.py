"""C14 (Mode B, bounded): Models.determinants returns the ratios det W_new(k) / det W_old.

The REAL Models.determinants (and build_system underneath the SOLVE contract) is executed on exact symbolic arrays
(pyvc.modeb).  Specification, written independently with plain loops (pyvc.modeb.kkt_matrix, fraction-free determinant):

    W(X)      = [[0.5 (X^T X)^{o2}, e, X^T], [e^T, 0, 0], [X, 0, 0]]     X = points relative to x_base (n x npt)
    W_new(k)  = W(X with column k replaced by x_new - x_base)
    sigma_k  := Models.determinants(x_new, k)     must satisfy     sigma_k * det W(X) == det W_new(k)
    Models.determinants(x_new)[k] == Models.determinants(x_new, k)                      for every k

The identities are polynomial identities in the symbols (x_new always symbolic); they are decided by normal form.
"""
import numpy as np

from pyvc.unit import Unit
from pyvc import modeb as mb
from pyvc.modeb import Cases, FieldCtx, Shadow, arr

THOROUGH = mb.THOROUGH


def gtag(symbolic):
    return "symbolic" if symbolic else "rational"


def npts(n):
    lo, hi = n + 1, (n + 1) * (n + 2) // 2
    if n <= 2:
        return list(range(lo, hi + 1))
    return sorted({lo, 2 * n + 1, hi})


def setup(label, n, npt, symbolic):
    F = FieldCtx(mb.geometry_names(n, npt, symbolic) + mb.names_vec("xn", n))
    sh = Shadow()
    xb, X = mb.geometry(F, label, n, npt, symbolic)
    it = sh.interpolation(xb.copy(), X.copy())
    z = np.empty((npt, 0), dtype=object)
    M = sh.models(it, mb.lift_array(F, [0] * npt), z, z.copy(), None, [], [])   # determinants() only reads the interpolation set
    return F, sh, xb, X, it, M


def case_one_vs_all(emit, n, npt, symbolic):
    tag = f"[n={n},npt={npt},geom={gtag(symbolic)}]"
    F, sh, xb, X, it, M = setup(f"C14{tag}", n, npt, symbolic)
    x_new = F.vec("xn", n)
    allv = M.determinants(x_new.copy())
    ok, note = (np.shape(allv) == (npt,)), f"determinants(x_new) has shape {np.shape(allv)}, expected ({npt},)"
    for k in range(npt):
        if ok:
            one = M.determinants(x_new.copy(), k)
            ok, note = mb.all_zero(F, allv[k] - one)
            note = note and f"entry {k} of determinants(x_new) differs from determinants(x_new, {k}): " + note
    if ok:
        ok, note = mb.same(F, it.xpt, X)
        if ok:
            ok, note = mb.same(F, it.x_base, xb)
        note = note and "determinants() modified the interpolation set: " + note
    emit("C14.one_vs_all_indices" + tag, ok, None if ok else note)


def case_ratio(emit, n, npt, symbolic, mode):
    """mode 'one': sigma_k from determinants(x_new, k) for every k;  'all': from one call determinants(x_new)."""
    tag = f"[n={n},npt={npt},geom={gtag(symbolic)},call={mode}]"
    F, sh, xb, X, it, M = setup(f"C14{tag.replace(',call=' + mode, '')}", n, npt, symbolic)
    x_new = F.vec("xn", n)
    d_old = mb.det(F, mb.kkt_matrix(F, X))
    if F.is_zero(d_old):
        raise mb.Unsupported("sampled geometry not poised")
    sig_all = M.determinants(x_new.copy()) if mode == "all" else None
    ok, note = True, None
    for k in range(npt):
        sig = sig_all[k] if mode == "all" else M.determinants(x_new.copy(), k)
        Xk = X.copy()
        Xk[:, k] = x_new - xb
        d_new = mb.det(F, mb.kkt_matrix(F, Xk))
        r = F.lift(sig) * d_old - d_new
        if not F.is_zero(r):
            ok, note = False, f"k={k}: sigma_k * det W - det W_new(k) = {mb.short(r, 200)}"
            break
    emit("C14.ratio_equals_det_ratio" + tag, ok, note)


class _ModeB(Unit):
    props = ("C14",)
    fmodel = "REAL"
    assumptions = list(mb.MODEB_ASSUMPTIONS)
    functions = [("cobyqa.models", "Models.determinants"), ("cobyqa.models", "build_system")]
    timeout_ms = 5000
    plan = ()
    budget = 30

    def run(self, c):
        cs = Cases(c, self)
        for n, p, sym, req in self.plan:
            cs.run(f"C14.one_vs_all[n={n},npt={p},{gtag(sym)}]", lambda e, n=n, p=p, sym=sym: case_one_vs_all(e, n, p, sym),
                   self.budget, req)
            cs.run(f"C14.ratio.one[n={n},npt={p},{gtag(sym)}]", lambda e, n=n, p=p, sym=sym: case_ratio(e, n, p, sym, "one"),
                   self.budget, req)
            cs.run(f"C14.ratio.all[n={n},npt={p},{gtag(sym)}]", lambda e, n=n, p=p, sym=sym: case_ratio(e, n, p, sym, "all"),
                   self.budget, req)


class C14Symbolic(_ModeB):
    name = "C14.modeb.symbolic_geometry"
    bounded = ("exact symbolic execution of the real Models.determinants, FULLY SYMBOLIC geometry (x_base, every interpolation "
               "point and the candidate x_new are symbols): n=1 with npt in {2,3} and n=2 with npt=3, every k; n=2,npt=4 with "
               "symbolic geometry did not finish in 240 s (exact inverse of the symbolic 7x7 system) and is not claimed")
    plan = [(1, 2, True, True), (1, 3, True, True), (2, 3, True, True)]
    budget = 40


class C14RationalN2(_ModeB):
    name = "C14.modeb.rational_geometry.n2"
    bounded = ("exact symbolic execution of the real Models.determinants, n=2, npt in {3,4,5,6}, every k; seeded generic rational "
               "x_base and interpolation points (VERIF_SEED, poisedness checked), candidate point x_new SYMBOLIC")
    plan = [(2, p, False, True) for p in npts(2)]


class C14RationalN3(_ModeB):
    name = "C14.modeb.rational_geometry.n3"
    bounded = ("exact symbolic execution of the real Models.determinants, n=3 with npt in {4,7,10}, every k; seeded generic "
               "rational x_base and interpolation points (VERIF_SEED, poisedness checked), candidate point x_new SYMBOLIC")
    plan = [(3, p, False, p == 4) for p in npts(3)]


class C14RationalN4(_ModeB):
    name = "C14.modeb.rational_geometry.n4"
    bounded = ("exact symbolic execution of the real Models.determinants, n=4 with npt in {5,9,15}, every k; seeded generic "
               "rational x_base and interpolation points (VERIF_SEED, poisedness checked), candidate point x_new SYMBOLIC; "
               "n=5 (npt 6,11) in the thorough tier")
    plan = [(4, p, False, False) for p in (5, 9, 15)] + ([(5, 6, False, False), (5, 11, False, False)] if THOROUGH else [])


UNITS = [C14Symbolic(), C14RationalN2(), C14RationalN3(), C14RationalN4()]


# ---- bounded check of the SOLVE assumption of the Mode B units --------------------------------------------------------------------
class SolveSystemsBounded(Unit):
    """Mode B replaces Quadratic.solve_systems by its contract (the exact solution of the system built by build_system); the real body
    (eigen-decomposition, scaling) is floating-point code outside exact arithmetic.  Here it is run on seeded well-conditioned
    interpolation sets: the returned vectors solve W x = rhs up to rounding x conditioning, and the caller's right-hand sides are
    not modified (Models.determinants reuses them after the call)."""
    name = "models.solve_systems_bounded"
    props = ("C14", "C13", "C12")
    fmodel = "ORDER"
    functions = [("cobyqa.models", "Quadratic.solve_systems"), ("cobyqa.models", "build_system")]
    replay = ("contracts.replays", "solve_systems_check")
    bounded = "native run-time contract on 600 seeded interpolation sets (n 1..4, npt n+1..(n+1)(n+2)/2, radii over 8 decades, 1..3 right-hand sides)"

    def run(self, c):
        import os
        import z3
        import numpy as np
        from pyvc.transform import ensure_repo_on_path
        from .subsolvers_bounded import rng_for
        from .replays import solve_systems_check
        ensure_repo_on_path()
        rng = rng_for(self.name)
        N = 6000 if os.environ.get("VERIF_TIER") == "thorough" else 600
        bad = None
        with np.errstate(all="ignore"):
            for k in range(N):
                n = int(rng.integers(1, 5))
                npt = int(rng.integers(n + 1, (n + 1) * (n + 2) // 2 + 1))
                rad = 10.0 ** rng.uniform(-4, 4)
                xpt = rng.standard_normal((n, npt)) * rad
                xpt[:, 0] = 0.0
                rhs = rng.standard_normal((npt + n + 1, int(rng.integers(1, 4))))
                case = dict(xpt=xpt.tolist(), rhs=rhs.tolist())
                try:
                    r = solve_systems_check(**case)
                except np.linalg.LinAlgError:
                    continue
                if r["reproduced"] and bad is None:
                    bad = (k, case, r)
        c.oblige(f"C14.solve_systems.solves_the_system_and_keeps_its_argument[{N} cases]", z3.BoolVal(bad is None), kind="bounded",
                 props=["C14", "C13", "C12"], note=None if bad is None else f"case {bad[0]}: {bad[2].get('required')}: {bad[2].get('observed')}",
                 replay_inputs=None if bad is None else bad[1])


UNITS.append(SolveSystemsBounded())
