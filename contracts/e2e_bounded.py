"""BOUNDED end-to-end monitor: the real `minimize` is run natively on a small scenario corpus with the user-observable clauses of
C01/C02/C05/C06/C09/C20 evaluated as run-time contracts on every call of the user functions.  It complements the modular proofs
(whose composition across functions is argued, not mechanised) and is labelled bounded: a stated corpus, never counted as proved.

Corpus: {unconstrained, bounds, scale=True with a fixed variable, linear constraints, nonlinear inequality+equality constraints,
pure feasibility problem} x {no callback, recording callback that overwrites the array it receives} and, for the callback clause, a
re-run with StopIteration raised at several call indices k (the run stopped at call k must return the point the k-th call received).
"""
import os
import z3
import numpy as np
from pyvc.unit import Unit
from pyvc.transform import ensure_repo_on_path
from .subsolvers_bounded import rng_for


def scenarios(rng):
    from scipy.optimize import Bounds, LinearConstraint, NonlinearConstraint
    out = []
    f1 = lambda x: float(np.sum((x - np.array([0.3, -0.2, 0.7])[: x.size]) ** 2) + 0.1 * np.sum(np.cos(3 * x)))
    out.append(dict(name="unconstrained", fun=f1, x0=[1.0, -1.0], kw={}))
    out.append(dict(name="bounds", fun=f1, x0=[1.0, -1.0, 0.0], kw=dict(bounds=Bounds([0.1, -0.3, 0.2], [0.7, 0.1, 1.3]))))
    out.append(dict(name="scaled+fixed", fun=f1, x0=[0.4, -0.1, 2.5], kw=dict(bounds=Bounds([0.1, -0.3, 2.5], [0.7, 0.1, 2.5]), options={"scale": True})))
    out.append(dict(name="linear", fun=f1, x0=[1.0, 1.0], kw=dict(constraints=[LinearConstraint([[1.0, 1.0]], -np.inf, 0.5), LinearConstraint([[1.0, -1.0]], 0.1, 0.1)])))
    nl = [NonlinearConstraint(lambda x: x[0] ** 2 + x[1] ** 2, -np.inf, 1.0), NonlinearConstraint(lambda x: np.array([x[0] - x[1] ** 2]), 0.2, 0.2)]
    out.append(dict(name="nonlinear", fun=lambda x: float(-x[0] - 2 * x[1]), x0=[0.1, 0.1], kw=dict(constraints=nl)))
    out.append(dict(name="nonlinear+scale+fixed", fun=lambda x: float(-x[0] - 2 * x[1] + x[2]), x0=[0.1, 0.1, 1.5],
                    kw=dict(constraints=[NonlinearConstraint(lambda x: x[0] ** 2 + x[1] ** 2 + x[2], -np.inf, 2.5)],
                            bounds=Bounds([-1, -1, 1.5], [1, 1, 1.5]), options={"scale": True})))
    out.append(dict(name="feasibility", fun=None, x0=[2.0, 2.0], kw=dict(constraints=[NonlinearConstraint(lambda x: x[0] ** 2 + x[1] ** 2, -np.inf, 1.0)])))
    return out


def true_maxcv(x, kw, nl_vals):
    from scipy.optimize import LinearConstraint, NonlinearConstraint
    v = 0.0
    b = kw.get("bounds")
    if b is not None:
        v = max(v, float(np.max(np.maximum(b.lb - x, 0))), float(np.max(np.maximum(x - b.ub, 0))))
    cons = kw.get("constraints", [])
    k = 0
    for cst in cons:
        if isinstance(cst, LinearConstraint):
            r = np.atleast_1d(np.asarray(cst.A) @ x)
            lbv, ubv = np.broadcast_to(cst.lb, r.shape), np.broadcast_to(cst.ub, r.shape)
        else:
            r = np.atleast_1d(nl_vals[k])
            k += 1
            lbv, ubv = np.broadcast_to(cst.lb, r.shape), np.broadcast_to(cst.ub, r.shape)
        v = max(v, float(np.max(np.maximum(lbv - r, 0), initial=0.0)), float(np.max(np.maximum(r - ubv, 0), initial=0.0)))
    return v


class Monitor:
    """Wraps the user functions of a scenario and records every call."""

    def __init__(self, sc, stop_at=None, overwrite=True, with_callback=True):
        from scipy.optimize import NonlinearConstraint
        self.sc, self.stop_at, self.overwrite = sc, stop_at, overwrite
        self.obj_calls, self.con_calls, self.cb_calls = [], [], []
        self.kw = dict(sc["kw"])
        self.kw["options"] = dict(self.kw.get("options", {}), maxfev=120)
        cons = []
        self.ncon = 0
        for cst in self.kw.get("constraints", []):
            if isinstance(cst, NonlinearConstraint):
                idx = self.ncon
                self.ncon += 1
                cons.append(NonlinearConstraint(self._wrap_con(cst.fun, idx), cst.lb, cst.ub))
            else:
                cons.append(cst)
        if cons:
            self.kw["constraints"] = cons
        self.fun = None if sc["fun"] is None else self._obj
        self.callback = self._cb if with_callback else None

    def _obj(self, x):
        self.obj_calls.append(np.array(x))
        return self.sc["fun"](x)

    def _wrap_con(self, f, idx):
        def g(x):
            self.con_calls.append((idx, np.array(x), len(self.obj_calls)))
            return f(x)
        return g

    def _cb(self, intermediate_result):
        x = intermediate_result.x
        self.cb_calls.append((np.array(x), float(intermediate_result.fun), len(self.obj_calls) if self.fun else len([c for c in self.con_calls if c[0] == 0])))
        if self.overwrite:
            x[:] = np.nan          # the array is the user's to modify
        if self.stop_at is not None and len(self.cb_calls) >= self.stop_at:
            raise StopIteration

    def run(self):
        from cobyqa import minimize
        return minimize(self.fun, list(self.sc["x0"]), callback=self.callback, **self.kw)


class EndToEnd(Unit):
    name = "e2e.scenarios"
    props = ("C20", "C09", "C05", "C06", "C01", "C02", "C08")
    fmodel = "ORDER"
    functions = [("cobyqa.main", "minimize")]
    bounded = ("native run-time contracts on a corpus of 7 problem statements x {no callback, overwriting callback} plus re-runs stopped by "
               "StopIteration at 4 call indices each (about 40 runs of minimize, maxfev=120)")

    def run(self, c):
        ensure_repo_on_path()
        rng = rng_for(self.name)
        fails, seen = {}, set()

        def chk(nm, ok, info):
            seen.add(nm)
            if not ok and nm not in fails:
                fails[nm] = info
        with np.errstate(all="ignore"):
            for sc in scenarios(rng):
                for with_cb in (False, True):
                    mon = Monitor(sc, with_callback=with_cb)
                    nm = sc["name"] + ("+cb" if with_cb else "")
                    try:
                        res = mon.run()
                    except Exception as e:  # noqa: an exception leaving minimize on a valid problem statement (C08), whatever its cause
                        chk("C08.e2e.no_exception_escapes_minimize", False, dict(s=nm, error=repr(e)))
                        continue
                    chk("C08.e2e.no_exception_escapes_minimize", True, None)
                    nev = len(mon.obj_calls) if sc["fun"] is not None else res.nfev
                    b = sc["kw"].get("bounds")
                    chk("C05.e2e.nfev_counts_objective_calls", res.nfev == nev, dict(s=nm, nfev=res.nfev, calls=nev))
                    for idx in range(mon.ncon):
                        calls = [cc for cc in mon.con_calls if cc[0] == idx]
                        chk("C06.e2e.constraint_called_at_most_once_per_evaluation", len(calls) <= res.nfev, dict(s=nm, calls=len(calls), nfev=res.nfev))
                        if sc["fun"] is not None:
                            ok = all(cc[2] >= 1 and np.array_equal(cc[1], mon.obj_calls[cc[2] - 1]) for cc in calls)
                            chk("C06.e2e.constraint_called_at_the_evaluated_point", ok, dict(s=nm))
                    if b is not None:
                        pts = mon.obj_calls + [cc[1] for cc in mon.con_calls] + [cb[0] for cb in mon.cb_calls] + [res.x]
                        chk("C01.e2e.every_observable_point_inside_bounds", all(np.all(b.lb <= p) and np.all(p <= b.ub) for p in pts), dict(s=nm))
                    # C02: returned x was evaluated, fun is the value there, maxcv the true violation
                    if sc["fun"] is not None:
                        chk("C02.e2e.returned_point_was_evaluated", any(np.array_equal(res.x, p) for p in mon.obj_calls), dict(s=nm, x=res.x.tolist()))
                        chk("C02.e2e.fun_is_value_at_x", res.fun == sc["fun"](res.x), dict(s=nm))
                    from scipy.optimize import NonlinearConstraint
                    nlv = [cst.fun(res.x) for cst in sc["kw"].get("constraints", []) if isinstance(cst, NonlinearConstraint)]
                    want = true_maxcv(res.x, sc["kw"], nlv)
                    chk("C02.e2e.maxcv_is_true_violation", abs(res.maxcv - want) <= 1e-9 * (1 + want), dict(s=nm, got=float(res.maxcv), want=want))
                    if with_cb:
                        chk("C20.e2e.callback_once_per_evaluation", len(mon.cb_calls) == res.nfev and all(cb[2] == k + 1 for k, cb in enumerate(mon.cb_calls)),
                            dict(s=nm, callbacks=len(mon.cb_calls), nfev=res.nfev))
                        chk("C20.e2e.callback_array_is_the_users", not np.any(np.isnan(res.x)), dict(s=nm, x=res.x.tolist()))
                        total = len(mon.cb_calls)
                        for k in sorted({1, 2, max(1, total // 2), max(1, total - 1)}):
                            m2 = Monitor(sc, stop_at=k)
                            try:
                                r2 = m2.run()
                            except Exception as e:  # noqa
                                chk("C08.e2e.no_exception_escapes_minimize", False, dict(s=nm, k=k, error=repr(e)))
                                continue
                            seen_x, seen_f = m2.cb_calls[-1][0], m2.cb_calls[-1][1]
                            info = dict(s=nm, k=k, status=r2.status, nfev=r2.nfev, returned=r2.x.tolist(), callback_saw=seen_x.tolist())
                            chk("C09.e2e.stop_at_call_k_gives_status3_nfev_k", r2.status == 3 and r2.nfev == k and len(m2.cb_calls) == k, info)
                            chk("C20.e2e.stopped_run_returns_what_the_callback_saw", np.array_equal(r2.x, seen_x) and (r2.fun == seen_f or (r2.fun != r2.fun and seen_f != seen_f)), info)
        for nm in sorted(seen):
            # a clause counts for the property it is written from; an exception escaping minimize spoils every clause of the scenario
            props = list(self.props) if nm.startswith("C08.") else sorted({nm[:3]} | ({"C09", "C20"} if "stop" in nm else set()))
            c.oblige(nm, z3.BoolVal(nm not in fails), kind="bounded", props=props, note=str(fails.get(nm))[:1200] if nm in fails else None)


UNITS = [EndToEnd()]
