"""C15.O1 / C01: the steps of the truncated-CG solvers stay inside the bounds they were given - as LOOP INVARIANTS of the real loops
(constrained_tangential_byrd_omojokun, normal_byrd_omojokun), for every n, every number of linear constraints, every iteration.

Each `while` loop is cut at the invariant
   BOX   for every i:  step_i is NaN  or  xl_i <= step_i <= xu_i            (xl = min(xl, 0), xu = max(xu, 0) from the prologue)
   ACT   0 <= n_act <= n
   QRSYNC  the QR factor in use was computed from the current contents of free_xl / free_xu / free_ub (ghost content identities)
with the frame computed from the loop body (pyvc.shims.FrameInvLoop): everything the body assigns or writes in place is havocked,
the body is explored once from that state on every path, and BOX is proved again.  Matrices are opaque (only their products with
vectors are used, each product a fresh vector): BOX does not depend on what the QR factors contain, only on the fact that every write
to `step` is a clip to [xl, xu] or sets one component to its bound.  NaN-freeness of the step is NOT part of this proof (bounded
clause C15.*.step_within_bounds keeps it)."""
import z3
from pyvc.core import cur, SB, tobool
from pyvc.unit import Unit, call_expecting
from pyvc.values import SF, SI, it
from pyvc.shims import FrameInvLoop
from pyvc import vecs
from .common import shadow
from .geometry import MV

_SH = {}


def box_at(step, xl, xu, i):
    e = step.at(i)
    return z3.Or(e.nan, z3.And(xl.at(i).r <= e.r, e.r <= xu.at(i).r))


class BoxLoop(FrameInvLoop):
    prefix = "C15.tcg.box"
    props = ("C15", "C01")

    def __init__(self, prefix):
        self.prefix = prefix

    eager = False      # True: the index at which BOX is re-proved is fixed when the loop state is havocked and every universally
                       # quantified fact produced by the body (reductions, np.any/all) is also instantiated there

    def inv(self, L, env, mode):
        step, xl, xu = env["step"], env["xl"], env["xu"]
        n = step.n
        out = []
        if mode == "assume":
            j = z3.Int("vcx_j")
            out.append(("box", z3.ForAll([j], z3.Implies(z3.And(0 <= j, j < n), box_at(step, xl, xu, j)), patterns=[step.at(j).r])))
            if self.eager:
                i = z3.Int(L.c.fresh_name("vcx_any"))
                L.st["i_star"] = i
                L.c.ghost.setdefault("instantiate_at", []).append(i)
                L.c.assume(z3.And(0 <= i, i < n))          # an arbitrary index (the out-of-range case of the goal is trivial)
                out.append(("box_at_the_index", box_at(step, xl, xu, i)))
                out.append(("bounds_contain_the_origin", z3.And(xl.at(i).r <= 0, xu.at(i).r >= 0)))
        else:
            i = L.st.get("i_star") if self.eager and "i_star" in L.st else z3.Int(L.c.fresh_name("vcx_any"))
            out.append(("box", z3.Implies(z3.And(0 <= i, i < n), box_at(step, xl, xu, i))))
        if "n_act" in env and env["n_act"] is not None:
            out.append(("n_act_in_range", z3.And(0 <= it(env["n_act"]), it(env["n_act"]) <= it(env["n"]))))
        # QRSYNC: the factor q in use was computed (by the last call of qr_tangential_byrd_omojokun) from the active sets as they are
        # now - every change of free_xl / free_xu / free_ub is followed by a refresh before the iteration ends or the loop is left
        q = env.get("q")
        if isinstance(q, MV) and all(k in env for k in ("free_xl", "free_xu", "free_ub")):
            now = tuple(env[k].cid for k in ("free_xl", "free_xu", "free_ub"))
            if mode == "assume":
                q.qr_of = now
            else:
                out.append(("qr_factors_match_the_active_set", z3.BoolVal(getattr(q, "qr_of", None) == now)))
        return out


def optim_shadow_box():
    if "m" not in _SH:
        specs = {"ct.loop0": BoxLoop("C15.constrained_tangential.tcg_loop"), "ct.loop1": BoxLoop("C15.constrained_tangential.boundary_loop")}
        cuts = {("constrained_tangential_byrd_omojokun", 0): "ct.loop0", ("constrained_tangential_byrd_omojokun", 1): "ct.loop1"}
        _SH["m"] = shadow("cobyqa.subsolvers.optim", specs=specs, cuts=cuts, expect_loops={"constrained_tangential_byrd_omojokun": 2})
    return _SH["m"]


class ConstrainedTangentialBox(Unit):
    name = "tcgbox.constrained_tangential"
    props = ("C15", "C01")
    fmodel = "ORDER"
    functions = [("cobyqa.subsolvers.optim", "constrained_tangential_byrd_omojokun")]
    parallel = True
    path_budget = 1          # expensive paths: a worker explores one path and hands the unexplored siblings back to the pool
    timeout_ms = 20000
    assumptions = ["matrices are opaque: a product with a vector is a fresh vector (BOX does not depend on their contents); "
                   "qr_tangential_byrd_omojokun is a contract stub (any factor, any n_act in 0..n); _alpha_tr returns a finite step length "
                   ">= 0 (unit geometry.alpha_tr, REAL model) or raises ZeroDivisionError; hess_prod is any function of its argument",
                   "NaN-freeness of the returned step is not proved here (bounded clause)",
                   "the number of sampled angles int((n_samples - 3) * t_min + 3) is defined and non-negative (t_min lies in [0, 1] by "
                   "construction; that is not proved here): the ValueError / OverflowError paths of int() and np.linspace are assumed away"]

    def run(self, c):
        m = optim_shadow_box()
        c.ghost["assume_sample_count_defined"] = True
        n = z3.Int(c.fresh_name("n"))
        mub, meq = z3.Int(c.fresh_name("m_ub")), z3.Int(c.fresh_name("m_eq"))
        c.assume(z3.And(n >= 1, mub >= 0, meq >= 0))
        grad = vecs.fresh_vec("grad", n, finite=True)
        xl0 = vecs.fresh_vec("xl", n, nonan=True)
        xu0 = vecs.fresh_vec("xu", n, nonan=True)
        bub = vecs.fresh_vec("bub", mub, finite=True)
        aub, aeq = MV(mub, n, "aub"), MV(meq, n, "aeq")
        delta = SF.fresh("delta", finite=True)
        c.assume(delta.r > 0)
        hp_cache = {}

        def hess_prod(v):
            if v.cid not in hp_cache:
                hp_cache[v.cid] = (v, vecs.fresh_vec("Hv", n))
            return hp_cache[v.cid][1]

        def qr_stub(aub_, aeq_, fxl, fxu, fub):
            na = z3.Int(c.fresh_name("n_act"))
            c.assume(z3.And(na >= 0, na <= n))
            q = MV(n, n, "q")
            q.qr_of = (fxl.cid, fxu.cid, fub.cid)          # ghost: the contents of the active sets this factor belongs to
            return SI(na), q

        def alpha_tr(step, sd, delta_):
            if c.choose("_alpha_tr", 2, ["value", "ZeroDivisionError"]):
                raise ZeroDivisionError
            a = SF.fresh("alpha_tr", finite=True)      # contract of _alpha_tr (geometry.alpha_tr): a finite step length >= 0
            c.assume(a.r >= 0)
            return a
        m.__dict__["_alpha_tr"] = alpha_tr
        m.__dict__["qr_tangential_byrd_omojokun"] = qr_stub
        improve = bool(c.choose("improve_tcg", 2, ["on", "off"]) == 0)
        kind, res = call_expecting(c, "C08.constrained_tangential",
                                   lambda: m.constrained_tangential_byrd_omojokun(grad, hess_prod, xl0, xu0, aub, bub, aeq, delta, False, improve_tcg=improve), ())
        i = z3.Int(c.fresh_name("vcx_any"))
        lo = z3.If(xl0.at(i).r <= 0, xl0.at(i).r, 0)
        hi = z3.If(xu0.at(i).r >= 0, xu0.at(i).r, 0)
        e = res.at(i)
        c.oblige("C15.constrained_tangential.returned_step_within_bounds", z3.Implies(z3.And(0 <= i, i < n), z3.Or(e.nan, z3.And(lo <= e.r, e.r <= hi))),
                 props=["C15", "C01"], note="the step returned by constrained_tangential_byrd_omojokun leaves [min(xl,0), max(xu,0)]")
        c.oblige("C15.constrained_tangential.returned_step_has_the_dimension", res.n == n, props=["C15"])


UNITS = [ConstrainedTangentialBox()]


# ---- tangential_byrd_omojokun (bound constraints only): both loops under the BOX invariant.  Before the fix eaae3e7 the second loop
# ---- rotated the step WITHOUT clipping: BOX then rested on the cap t_bd of the rotation angle, a nonlinear real-arithmetic argument
# ---- that did not discharge (see TangentialRotationBox below, kept unregistered) - and that is false in floating point: the bounded
# ---- unit found a step one ulp outside its bound (thorough tier, seed 1), which is what the fix repairs ------------------------------
def optim_shadow_tbox():
    if "t" not in _SH:
        specs = {"t.loop0": BoxLoop("C15.tangential.tcg_loop"), "t.loop1": BoxLoop("C15.tangential.boundary_loop")}
        cuts = {("tangential_byrd_omojokun", 0): "t.loop0", ("tangential_byrd_omojokun", 1): "t.loop1"}
        _SH["t"] = shadow("cobyqa.subsolvers.optim", specs=specs, cuts=cuts, expect_loops={"tangential_byrd_omojokun": 2})
    return _SH["t"]


class TangentialBox(Unit):
    name = "tcgbox.tangential"
    props = ("C15", "C01")
    fmodel = "ORDER"
    functions = [("cobyqa.subsolvers.optim", "tangential_byrd_omojokun")]
    parallel = True
    path_budget = 1
    timeout_ms = 20000
    assumptions = ["_alpha_tr returns a finite step length >= 0 or raises ZeroDivisionError; hess_prod is any function of its argument",
                   "both loops are under the BOX invariant (since the fix eaae3e7 the rotated step is clipped like every other iterate); the "
                   "number of sampled angles int((n_samples - 3) * t_bd + 3) is assumed defined and non-negative; NaN-freeness not proved"]

    def run(self, c):
        m = optim_shadow_tbox()
        c.ghost["assume_sample_count_defined"] = True
        n = z3.Int(c.fresh_name("n"))
        c.assume(n >= 1)
        grad = vecs.fresh_vec("grad", n, finite=True)
        xl0 = vecs.fresh_vec("xl", n, nonan=True)
        xu0 = vecs.fresh_vec("xu", n, nonan=True)
        delta = SF.fresh("delta", finite=True)
        c.assume(delta.r > 0)
        hp_cache = {}

        def hess_prod(v):
            if v.cid not in hp_cache:
                hp_cache[v.cid] = (v, vecs.fresh_vec("Hv", n))
            return hp_cache[v.cid][1]

        def alpha_tr(step, sd, delta_):
            if c.choose("_alpha_tr", 2, ["value", "ZeroDivisionError"]):
                raise ZeroDivisionError
            a = SF.fresh("alpha_tr", finite=True)
            c.assume(a.r >= 0)
            return a
        m.__dict__["_alpha_tr"] = alpha_tr
        improve = bool(c.choose("improve_tcg", 2, ["on", "off"]) == 0)
        kind, res = call_expecting(c, "C08.tangential", lambda: m.tangential_byrd_omojokun(grad, hess_prod, xl0, xu0, delta, False, improve_tcg=improve), ())
        i = z3.Int(c.fresh_name("vcx_any"))
        lo = z3.If(xl0.at(i).r <= 0, xl0.at(i).r, 0)
        hi = z3.If(xu0.at(i).r >= 0, xu0.at(i).r, 0)
        e = res.at(i)
        c.oblige("C15.tangential.returned_step_within_bounds",
                 z3.Implies(z3.And(0 <= i, i < n), z3.Or(e.nan, z3.And(lo <= e.r, e.r <= hi))),
                 props=["C15", "C01"], note="the step returned by tangential_byrd_omojokun leaves [min(xl,0), max(xu,0)]")


UNITS.append(TangentialBox())


# ---- the boundary (rotation) loop of tangential_byrd_omojokun in REAL arithmetic ---------------------------------------------------
# The rotation  step <- cos(theta) step + sin(theta) sd  is not clipped: BOX rests on the cap t_bd of tan(theta/2).  Per component
# (s = step_i, d = sd_i, u = xu_i >= 0 >= ... ) the argument is:  with t <= 1 and, when s^2 + d^2 > u^2 and sqrt(s^2+d^2-u^2) + d >
# TINY (u - s), t <= (u - s) / (sqrt(s^2+d^2-u^2) + d), the rotated component ((1-t^2) s + 2 t d) / (1+t^2) stays <= u (and the
# mirror image for the lower bound).  The truncated-CG loop before it is replaced by its proved summary (BOX, unit tcgbox.tangential).
class AssumeBoxFrame(FrameInvLoop):
    """frame-only cut that continues with the loop's proved invariant BOX instead of nothing"""

    def after_havoc(self, L, env, out):
        env2 = dict(env)
        env2.update(out)
        step, xl, xu = env2["step"], env2["xl"], env2["xu"]
        j = z3.Int("vcx_j")
        L.c.assume(z3.ForAll([j], z3.Implies(z3.And(0 <= j, j < step.n), box_at(step, xl, xu, j)), patterns=[step.at(j).r]))


def optim_shadow_trot():
    if "trot" not in _SH:
        rot = BoxLoop("C15.tangential.boundary_loop")
        rot.eager = True
        specs = {"t.loop0.summary": AssumeBoxFrame(), "t.loop1": rot}
        cuts = {("tangential_byrd_omojokun", 0): ("t.loop0.summary", "frame"), ("tangential_byrd_omojokun", 1): "t.loop1"}
        _SH["trot"] = shadow("cobyqa.subsolvers.optim", specs=specs, cuts=cuts, expect_loops={"tangential_byrd_omojokun": 2})
    return _SH["trot"]


class TangentialRotationBox(Unit):
    name = "tcgbox.tangential_rotation"
    props = ("C15", "C01")
    fmodel = "REAL"
    functions = [("cobyqa.subsolvers.optim", "tangential_byrd_omojokun")]
    parallel = True
    path_budget = 1
    timeout_ms = 30000
    assumptions = ["REAL model: machine arithmetic treated as mathematical (rounding residues of the rotation, of the order of an ulp of "
                   "the bound, are not covered); finite bounds (with an infinite bound that side needs no cap)",
                   "the truncated-CG loop is replaced by its summary BOX proved in unit tcgbox.tangential",
                   "hess_prod is any function of its argument; the number of sampled angles is defined and non-negative"]

    def run(self, c):
        m = optim_shadow_trot()
        c.ghost["assume_sample_count_defined"] = True
        c.ghost["instantiate_at_witnesses"] = True
        n = z3.Int(c.fresh_name("n"))
        c.assume(n >= 1)
        grad = vecs.fresh_vec("grad", n, finite=True)
        xl0 = vecs.fresh_vec("xl", n, finite=True)
        xu0 = vecs.fresh_vec("xu", n, finite=True)
        delta = SF.fresh("delta", finite=True)
        c.assume(delta.r > 0)
        hp_cache = {}

        def hess_prod(v):
            if v.cid not in hp_cache:
                hp_cache[v.cid] = (v, vecs.fresh_vec("Hv", n, finite=True))
            return hp_cache[v.cid][1]
        m.__dict__["_alpha_tr"] = lambda step, sd, delta_: SF.fresh("alpha_tr", finite=True)
        kind, res = call_expecting(c, "C08.tangential", lambda: m.tangential_byrd_omojokun(grad, hess_prod, xl0, xu0, delta, False, improve_tcg=True), ())
        i = z3.Int(c.fresh_name("vcx_any"))
        lo = z3.If(xl0.at(i).r <= 0, xl0.at(i).r, 0)
        hi = z3.If(xu0.at(i).r >= 0, xu0.at(i).r, 0)
        e = res.at(i)
        c.oblige("C15.tangential.returned_step_within_bounds", z3.Implies(z3.And(0 <= i, i < n), z3.Or(e.nan, z3.And(lo <= e.r, e.r <= hi))),
                 props=["C15", "C01"], note="the step returned by tangential_byrd_omojokun leaves [min(xl,0), max(xu,0)]")


# NOT registered: the obligations of the rotation do not discharge (z3/cvc5 return unknown even on the 55 assertions that mention the
# index, nonlinear real arithmetic with nested ite/sqrt/division); kept as a record of the attempt, see DESIGN.md
# UNITS.append(TangentialRotationBox())
