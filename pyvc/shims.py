"""Builtin shims injected into shadow modules, quantifier combinators, loop-cut run-time."""
import builtins
import z3
from .core import Ctx, SB, Unsupported, StaleContract, PathEnd, QScope, tobool, cur, vcx_and, vcx_or, vcx_not
from .values import SI, SF, it, py_max2, py_min2, ite, I, PINF, NINF
from .dicts import v_dict


def _symbolic(x):
    return getattr(x, "_vcx_symbolic", False) or isinstance(x, SB)


# ---- builtins -----------------------------------------------------------------------------------
def v_max(*args, **kw):
    if len(args) == 1 and getattr(args[0], "_vcx_asarray", False) and not set(kw) - {"default"}:
        from . import vecs
        if isinstance(args[0], (vecs.SV, vecs.Concat)):
            return vecs.py_seq_max(args[0], kw.get("default"), "default" in kw)
    if len(args) == 1:
        args = list(args[0])
        if not args and "default" in kw:
            return kw["default"]
    if "key" in kw:
        return builtins.max(*args, **kw)
    if not any(_symbolic(a) for a in args):
        return builtins.max(*args)
    acc = args[0]
    for a in args[1:]:
        acc = py_max2(acc, a)
    return acc


def v_min(*args, **kw):
    if len(args) == 1:
        args = list(args[0])
        if not args and "default" in kw:
            return kw["default"]
    if "key" in kw:
        return builtins.min(*args, **kw)
    if not any(_symbolic(a) for a in args):
        return builtins.min(*args)
    acc = args[0]
    for a in args[1:]:
        acc = py_min2(acc, a)
    c = Ctx.cur
    if c is not None:
        c.ghost.setdefault("min_calls", []).append((tuple(args), acc))     # lets contracts state cut lemmas on intermediate minima
    return acc


def v_abs(x):
    return abs(x)   # proxies implement __abs__


def v_float(x=0.0):
    if isinstance(x, SF):
        return x
    if isinstance(x, SI):
        return x.tofloat()
    if hasattr(x, "_vcx_float"):
        return x._vcx_float()
    return builtins.float(x)


def v_int(x=0, *a):
    if isinstance(x, SI):
        return x
    if isinstance(x, SF):
        # int(float): ValueError for NaN, OverflowError for +-inf, else truncation towards zero
        c = cur()
        if c.ghost.get("assume_sample_count_defined"):
            # the unit lists "int() is applied to a defined finite number" among its unchecked assumptions
            c.assume(z3.And(z3.Not(x.nan), x.r != PINF, x.r != NINF))
        if c.branch(SB(x.nan)):
            raise ValueError("cannot convert float NaN to integer")
        if c.branch(SB(z3.Or(x.r == PINF, x.r == NINF))):
            raise OverflowError("cannot convert float infinity to integer")
        k = z3.Int(c.fresh_name("int"))
        c.assume(z3.If(x.r >= 0, z3.And(k <= x.r, x.r < k + 1), z3.And(k >= x.r, x.r > k - 1)))
        return SI(k)
    return builtins.int(x, *a)


def v_bool(x=False):
    if isinstance(x, SB):
        return x
    if isinstance(x, SI):
        return SB(x.t != 0)
    return builtins.bool(x)


def v_len(x):
    if hasattr(x, "_vcx_len"):
        return x._vcx_len()
    return builtins.len(x)


class SZip:
    def __init__(self, seqs):
        self.seqs = seqs


def v_zip(*seqs, **kw):
    if any(hasattr(s, "_vcx_at") for s in seqs):
        return SZip(seqs)
    return builtins.zip(*seqs, **kw)


def v_range(*a):
    if any(isinstance(x, SI) for x in a):
        return SRange(*a)
    return builtins.range(*a)


class SRange:
    """range with symbolic ends; only usable as the iterable of a cut loop."""
    def __init__(self, *a):
        if len(a) == 1:
            self.start, self.stop, self.step = 0, a[0], 1
        elif len(a) == 2:
            self.start, self.stop, self.step = a[0], a[1], 1
        else:
            self.start, self.stop, self.step = a
        if not isinstance(self.step, int) or self.step not in (1, -1):
            raise Unsupported("symbolic range with a step other than +-1")

    def __iter__(self):
        raise Unsupported("iteration over a symbolic range without a loop invariant")


# ---- quantifier combinators --------------------------------------------------------------------
def _quant(fn, iterable, star, universal):
    if isinstance(iterable, SZip):
        seqs = list(iterable.seqs)
    elif hasattr(iterable, "_vcx_at"):
        seqs = [iterable]
        if star:
            raise Unsupported("tuple target over a single symbolic sequence")
    else:
        it_ = (fn(*e) if star else fn(e) for e in iterable)
        # concrete iterable: python semantics, but elements may evaluate to symbolic bools
        vals = list(it_)
        if not any(isinstance(v, SB) for v in vals):
            return builtins.all(vals) if universal else builtins.any(vals)
        ts = [tobool(v) if isinstance(v, (SB, bool)) else z3.BoolVal(bool(v)) for v in vals]
        return SB(z3.And(*ts) if universal else z3.Or(*ts))
    c = cur()
    lens = [s._vcx_len() for s in seqs]
    ln = it(lens[0])
    for l in lens[1:]:
        # zip stops at the shortest; the contracts keep the zipped lists aligned, which is checked here
        c.oblige("zip.same_length", it(l) == ln, kind="side")
    j = z3.Int(c.fresh_name("vcx_q"))
    with QScope(c, j) as qs:
        body = fn(*[s._vcx_at(j) for s in seqs])
    bt = tobool(body)
    ax = qs.conj()
    rng = z3.And(0 <= j, j < ln)

    def inst(w):
        return z3.substitute(bt, (j, w))
    if universal:
        q = z3.ForAll([j], z3.Implies(rng, bt))

        def on_true(ctx):
            return z3.ForAll([j], z3.And(ax, z3.Implies(rng, bt)))

        def on_false(ctx):
            w = z3.Int(ctx.fresh_name("vcx_sk"))
            ctx.witnesses.append(w)
            return z3.And(0 <= w, w < ln, z3.substitute(ax, (j, w)), z3.Not(inst(w)))
        return SB(q, on_true=on_true, on_false=on_false)
    q = z3.Exists([j], z3.And(rng, bt))

    def on_true(ctx):
        w = z3.Int(ctx.fresh_name("vcx_sk"))
        ctx.witnesses.append(w)
        return z3.And(0 <= w, w < ln, z3.substitute(ax, (j, w)), inst(w))

    def on_false(ctx):
        return z3.ForAll([j], z3.And(ax, z3.Implies(rng, z3.Not(bt))))
    return SB(q, on_true=on_true, on_false=on_false)


def vcx_all(fn, iterable, star):
    return _quant(fn, iterable, star, True)


def vcx_any(fn, iterable, star):
    return _quant(fn, iterable, star, False)


# ---- loop cuts ------------------------------------------------------------------------------------
class LoopSpec:
    """Sidecar loop contract.  Subclass and override; `names` must cover the syntactic modifies set."""
    names = ()          # locals that are havocked (fresh value at an arbitrary iteration)
    local = ()          # locals assigned in the body before any use in each iteration (not havocked)

    def begin(self, L, iterable, env): pass
    def havoc(self, L, env): return {}
    def iterate(self, L, env): raise NotImplementedError
    def target(self, L): raise NotImplementedError
    def end(self, L, env): pass
    def exit(self, L, env): pass


class LoopRun:
    def __init__(self, spec, lid, mods, inplace=()):
        self.spec = spec
        self.lid = lid
        self.mods, self.inplace = tuple(mods), tuple(inplace)
        self.c = cur()
        extra = set(mods) - set(spec.names) - set(spec.local)
        # names the contract does not know are treated as loop-local temporaries (not havocked: reading one before it is assigned
        # in an iteration raises UnboundLocalError on the explored path and is reported); only a havocked name that disappeared
        # from the body makes the anchor stale
        self.extra_locals = sorted(extra)
        self.st = {}

    def begin(self, iterable, env):
        self.spec.begin(self, iterable, env)

    def havoc(self, env):
        return self.spec.havoc(self, env)

    def iterate(self, env):
        return self.spec.iterate(self, env)

    def target(self):
        return self.spec.target(self)

    def end(self, env):
        self.spec.end(self, env)
        raise PathEnd("loop invariant re-established")

    def exit(self, env):
        self.spec.exit(self, env)

    def via_break(self):
        """engine choice taken before the loop test: continue after the loop from the havocked state knowing only the invariant;
        this one continuation stands for every exit through `break` (each of which proves the invariant and ends, see broke)"""
        if not getattr(self.spec, "merge_breaks", False):
            return False
        return bool(self.c.choose("loop_exit_" + str(self.lid), 2, ["test", "break"]))

    def broke(self, env):
        if getattr(self.spec, "merge_breaks", False):
            self.spec.at_break(self, env)
            raise PathEnd("loop left by break: invariant re-established, continuation explored once")

    def havoc_frame(self, env, mods, inplace):
        """Frame-only cut: fresh values of the same kind for everything the loop body may write."""
        from .vecs import SV, fresh_vec
        c = self.c
        out = {}

        def fresh_like(nm, v):
            if isinstance(v, SV):
                return fresh_vec(nm, v.n, kind=v.kind) if v.dense() else None
            if isinstance(v, SF):
                return SF.fresh(nm)
            if isinstance(v, SI) or (isinstance(v, int) and not isinstance(v, bool)):
                return SI(z3.Int(c.fresh_name(nm)))
            if isinstance(v, (SB, bool)):
                return SB(z3.Bool(c.fresh_name(nm)))
            if isinstance(v, float):
                return SF.fresh(nm)
            if hasattr(v, "_vcx_fresh_like"):
                return v._vcx_fresh_like(nm)
            return None
        for nm in inplace:
            v = env.get(nm)
            if isinstance(v, SV):
                f = fresh_vec(nm, v.n, kind=v.kind)
                if not v.dense():
                    raise Unsupported("frame havoc of a compressed vector")
                v._write(f.at)
            elif hasattr(v, "_vcx_havoc_inplace"):
                v._vcx_havoc_inplace()
        for nm in mods:
            if nm in inplace and isinstance(env.get(nm), SV):
                continue            # written in place: same object, already havocked
            if nm in env:
                f = fresh_like(nm, env[nm])
                if f is not None:
                    out[nm] = f
                elif env[nm] is not None and not callable(env[nm]):
                    # no fresh value of that kind: sound as long as the body assigns the name before reading it; any use of the
                    # stale value stops the exploration instead of computing with it
                    out[nm] = Poison(nm, type(env[nm]).__name__)
        extra = getattr(self.spec, "after_havoc", None)
        if extra:
            extra(self, env, out)
        return out


class Poison:
    """Value of a loop-carried name that could not be havocked: must not be used."""
    _vcx_symbolic = True

    def __init__(self, nm, tn):
        object.__setattr__(self, "_what", f"{nm} ({tn})")

    def _no(self, *a, **k):
        raise Unsupported("use of the loop-carried value " + object.__getattribute__(self, "_what") + " that the frame havoc cannot model")

    def __getattr__(self, k):
        if k.startswith("_vcx"):
            raise AttributeError(k)
        self._no()
    __getitem__ = __setitem__ = __call__ = __bool__ = __iter__ = __len__ = __add__ = __radd__ = __mul__ = __rmul__ = __sub__ = __rsub__ = _no
    __lt__ = __le__ = __gt__ = __ge__ = __eq__ = __ne__ = __index__ = __int__ = __float__ = __neg__ = __matmul__ = __rmatmul__ = _no
    __hash__ = None


class FrameInvLoop(LoopSpec):
    """`while` loop cut at a state invariant, with the frame computed from the body: at entry the invariant is proved for the
    current state; everything the body can write (names assigned, objects written in place) is havocked and the invariant assumed;
    if the loop test holds the body runs once and the invariant is proved again (path ends), otherwise execution continues after
    the loop.  `break` leaves with the state the body produced.  Subclasses give inv(L, env, mode) -> [(name, z3 term)]."""
    prefix = "loop"
    props = None

    def inv(self, L, env, mode):
        raise NotImplementedError

    def _prove(self, L, env, stage):
        for nm, t in self.inv(L, env, "prove"):
            L.c.oblige(f"{self.prefix}.{stage}.{nm}", t, **({"props": list(self.props)} if self.props else {}))

    def begin(self, L, iterable, env):
        self._prove(L, env, "init")

    def havoc(self, L, env):
        out = L.havoc_frame(env, L.mods, L.inplace)
        env2 = dict(env)
        env2.update(out)
        for nm, t in self.inv(L, env2, "assume"):
            L.c.assume(t)
        return out

    def end(self, L, env):
        self._prove(L, env, "preserve")

    merge_breaks = True

    def at_break(self, L, env):
        self._prove(L, env, "at_break")


def make_vcx_loop(specs):
    def vcx_loop(lid, mods, inplace=()):
        if lid not in specs:
            raise StaleContract(f"no loop contract {lid}")
        return LoopRun(specs[lid], lid, mods, inplace)
    return vcx_loop


def base_inject(specs=None):
    return {
        "vcx_and": vcx_and, "vcx_or": vcx_or, "vcx_not": vcx_not,
        "vcx_all": vcx_all, "vcx_any": vcx_any,
        "vcx_loop": make_vcx_loop(specs or {}),
    }


def builtin_shims():
    return {
        "max": v_max, "min": v_min, "abs": v_abs, "float": v_float, "int": v_int, "bool": v_bool,
        "len": v_len, "zip": v_zip, "range": v_range, "dict": v_dict,
    }


# ---- generic range-loop cut ---------------------------------------------------------------------------
class RangeLoop(LoopSpec):
    """`for k in range(a, b, +-1)` cut at an invariant.

    Subclasses provide
      inv(env, k, mode)    -> [(clause name, z3 term)]; mode is "prove" or "assume"; `k` is the next index to process
      havoc_state(L, env)  -> dict of havocked locals (the loop target is handled here); may replace heap objects
    """
    prefix = "loop"

    def inv(self, L, env, k, mode):
        raise NotImplementedError

    def havoc_state(self, L, env):
        return {}

    def begin(self, L, iterable, env):
        if isinstance(iterable, SRange):
            a, b, st = iterable.start, iterable.stop, iterable.step
        elif isinstance(iterable, builtins.range):
            a, b, st = iterable.start, iterable.stop, iterable.step
        else:
            raise StaleContract(f"{self.prefix}: the loop no longer iterates over a range")
        if st not in (1, -1):
            raise StaleContract(f"{self.prefix}: range step {st}")
        L.st.update(a=it(a), b=it(b), step=st)
        c = L.c
        # an empty range: start already beyond stop
        k0 = it(a)
        L.st["empty"] = (k0 <= it(b)) if st == -1 else (k0 >= it(b))
        first = z3.If(L.st["empty"], it(b), k0)
        for nm, t in self.inv(L, env, first, "prove"):
            c.oblige(f"{self.prefix}.init.{nm}", t)

    def havoc(self, L, env):
        c = L.c
        out = dict(self.havoc_state(L, env))
        k = z3.Int(c.fresh_name(self.prefix + ".k"))
        L.st["k"] = k
        a, b, st = L.st["a"], L.st["b"], L.st["step"]
        if st == -1:
            c.assume(z3.And(b <= k, z3.Or(k <= a, k == b)))
        else:
            c.assume(z3.And(k <= b, z3.Or(a <= k, k == b)))
        env2 = dict(env)
        env2.update(out)
        for nm, t in self.inv(L, env2, k, "assume"):
            c.assume(t)
        return out

    def iterate(self, L, env):
        k, b = L.st["k"], L.st["b"]
        return bool(SB(k != b))

    def target(self, L):
        return SI(L.st["k"])

    def end(self, L, env):
        k = L.st["k"] + L.st["step"]
        for nm, t in self.inv(L, env, k, "prove"):
            L.c.oblige(f"{self.prefix}.preserve.{nm}", t)

    def exit(self, L, env):
        pass
