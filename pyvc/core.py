"""pyvc core: execution context, path exploration by re-execution, obligations.

The real (AST-transformed) function bodies run under CPython on proxy values.  A proxy
bool used in a branch asks `Ctx.branch`, which forks by recording a decision prefix; every
path is a fresh re-execution of the unit from its set-up.
"""
import os
import time
import sys
import z3
sys.setrecursionlimit(max(sys.getrecursionlimit(), 20000))   # element closures of rewritten vectors nest deeply


class PathEnd(Exception):
    """The current path ends here (loop cut closed, or pruned)."""


class Unsupported(Exception):
    """The proxies do not model this operation: engine failure (exit 3), never a verdict."""


class StaleContract(Exception):
    """A sidecar contract no longer matches the shape of the code (exit 2, undecided)."""


_QCACHE = {}      # ast id -> bool, cleared at the start of every path
_QKEEP = []       # the terms has_quant was asked about: kept alive until the cache is cleared (z3 reuses ids of freed terms)


def has_quant(t):
    """True iff the z3 term contains a quantifier anywhere (memoised on sub-terms)."""
    memo = _QCACHE
    i0 = t.get_id()
    r = memo.get(i0)
    if r is not None:
        return r
    _QKEEP.append(t)
    stack = [(t, False)]
    while stack:
        u, done = stack.pop()
        i = u.get_id()
        if i in memo:
            continue
        if z3.is_quantifier(u):
            memo[i] = True
            continue
        ch = u.children()
        if not ch:
            memo[i] = False
            continue
        if done:
            memo[i] = any(memo.get(c.get_id(), False) for c in ch)
        else:
            stack.append((u, True))
            for c in ch:
                if c.get_id() not in memo:
                    stack.append((c, False))
    return memo[i0]


def mentions(t, var):
    """True iff the constant `var` occurs in term `t`."""
    vid = var.get_id()
    todo = [t]
    seen = set()
    while todo:
        u = todo.pop()
        i = u.get_id()
        if i == vid:
            return True
        if i in seen:
            continue
        seen.add(i)
        if z3.is_quantifier(u):
            todo.append(u.body())
        else:
            todo.extend(u.children())
    return False


class QScope:
    """Evaluate a quantifier body at the bound constant `var`; axioms about it are collected, not asserted."""

    def __init__(self, c, var):
        self.c, self.var, self.axioms = c, var, []

    def __enter__(self):
        self.c.qscopes.append((self.var, self.axioms))
        self.c.no_fork += 1
        return self

    def __exit__(self, *a):
        self.c.no_fork -= 1
        self.c.qscopes.pop()

    def conj(self):
        return z3.And(*self.axioms) if self.axioms else z3.BoolVal(True)


class Obligation:
    __slots__ = ("name", "pc", "goal", "info", "verdict", "model", "secs", "backend", "path", "zmodel", "hints", "group", "optional")

    def __init__(self, name, pc, goal, info=None):
        self.name = name
        self.pc = pc
        self.goal = goal
        self.info = info or {}
        self.verdict = None
        self.model = None
        self.secs = 0.0
        self.backend = None
        self.path = None
        self.zmodel = None
        self.hints = []
        self.group = None
        self.optional = []        # [(name, formula)]: optional invariants in force when the obligation was generated


class Ctx:
    """One symbolic path."""
    cur = None

    def __init__(self, decisions=(), fmodel="ORDER", prune_timeout_ms=2000):
        self.decisions = list(decisions)
        self.nforced = len(self.decisions)
        self.pos = 0
        self.pc = []
        self.hyps = []            # assumptions only (without the assumed goals of earlier obligations): vacuity check
        self.obligations = []
        self.todo = None
        self.fmodel = fmodel
        self.solver = z3.Solver()
        self.solver.set(timeout=prune_timeout_ms)
        self.nfresh = {}
        self.guards = []
        self.no_fork = 0
        self.witnesses = []       # Int terms usable as candidate witnesses for existential goals
        self.optional = []        # optional invariants: used for an obligation only if it fails without them (see unit.py)
        self.log = []             # ghost call log
        self.ghost = {}           # free-form ghost state for contracts
        self.pruned = 0
        self.trace = []           # human readable decision trace
        self.named = {}           # name -> proxy (inputs and stub outputs), for replay
        self.axiom_keys = set()
        self.size_hints = []      # Int consts that are lengths of symbolic sequences (used to look for small counter-models)
        self.qscopes = []         # [(bound var, [axioms emitted while evaluating a quantifier body])]

    # -- naming ---------------------------------------------------------------------------
    def fresh_name(self, nm):
        k = self.nfresh.get(nm, 0)
        self.nfresh[nm] = k + 1
        return nm if k == 0 else f"{nm}#{k}"

    def fresh(self, nm, sort):
        return z3.Const(self.fresh_name(nm), sort)

    # -- assumptions / obligations ----------------------------------------------------------
    def _guarded(self, t):
        if self.guards:
            return z3.Implies(z3.And(*self.guards) if len(self.guards) > 1 else self.guards[0], t)
        return t

    def assume(self, t):
        t = self._guarded(tobool(t))
        if z3.is_true(t):
            return
        self.pc.append(t)
        self.hyps.append(t)
        if not has_quant(t):
            self.solver.add(t)

    def axiom(self, key, t):
        """Assume `t` once per path (keyed), unguarded (it is a theorem, not a path fact)."""
        if self.qscopes:
            for var, sink in reversed(self.qscopes):
                if mentions(t, var):
                    sink.append(t)
                    return
        if key in self.axiom_keys:
            return
        self.axiom_keys.add(key)
        self.pc.append(t)
        if not has_quant(t):
            self.solver.add(t)

    def assume_optional(self, name, formula):
        """An invariant that another unit establishes but that this code may not need: it is kept out of the path condition and
        added only to re-try an obligation that failed without it; the obligation then records `needs: [name]` and the check
        requires the providing obligations (run.py).  Obligations that hold without it never depend on it."""
        self.optional.append((name, formula))

    def oblige(self, name, goal, **info):
        if self.qscopes and info.get("kind") == "side":
            # element-wise side conditions inside a quantifier body (e.g. REAL-model divisor != 0 for every element) are not
            # generated per element; they are listed as an unchecked assumption of the REAL model
            self.ghost.setdefault("skipped_side_obligations", set()).add(name)
            return None
        g = self._guarded(tobool(goal))
        ob = Obligation(name, list(self.pc), g, info)
        ob.path = list(self.decisions[: self.pos])
        ob.hints = list(self.size_hints)
        ob.optional = list(self.optional)
        self.obligations.append(ob)
        # continue under the assumption that it holds (standard assert-then-assume).  A goal that is literally `false` (a concrete
        # run-time contract that failed, an event that must not happen) is not assumed: it would make every later obligation of the
        # path hold vacuously and hide independent failures behind the first one
        if not z3.is_true(g) and not z3.is_false(g):
            self.pc.append(g)
            if not has_quant(g):
                self.solver.add(g)
        return ob

    def oblige_all(self, items, **info):
        """Several named obligations over the same path condition; discharged with one query when they all hold."""
        self.ngroup = getattr(self, "ngroup", 0) + 1
        pc0 = list(self.pc)
        obs = []
        for name, goal in items:
            g = self._guarded(tobool(goal))
            ob = Obligation(name, pc0, g, dict(info))
            ob.path = list(self.decisions[: self.pos])
            ob.hints = list(self.size_hints)
            ob.optional = list(self.optional)
            ob.group = self.ngroup
            self.obligations.append(ob)
            obs.append(ob)
        for ob in obs:
            if not z3.is_true(ob.goal) and not z3.is_false(ob.goal):
                self.pc.append(ob.goal)
                if not has_quant(ob.goal):
                    self.solver.add(ob.goal)
        return obs

    def feasible(self, t):
        self.solver.push()
        if self.guards:
            self.solver.add(*self.guards)
        self.solver.add(t)
        r = self.solver.check()
        self.solver.pop()
        return r != z3.unsat

    # -- branching --------------------------------------------------------------------------
    def branch(self, sb):
        cond = z3.simplify(sb.t)
        if z3.is_true(cond):
            return True
        if z3.is_false(cond):
            return False
        if self.no_fork:
            raise Unsupported("fork on a symbolic condition inside a quantifier body / no-fork region")
        tt = tf = None
        if self.pos < len(self.decisions):
            d = self.decisions[self.pos]
        else:
            tt = sb.on_true(self) if sb.on_true is not None else cond
            tf = sb.on_false(self) if sb.on_false is not None else z3.Not(cond)
            # feasibility pruning uses quantifier-free facts only; a quantified side is assumed feasible
            ft = True if has_quant(tt) else self.feasible(tt)
            # if one side is infeasible the other one is feasible (the path condition itself is satisfiable)
            ff = True if (has_quant(tf) or not ft) else self.feasible(tf)
            if ft and ff:
                d = True
                self.decisions.append(True)
                if self.todo is not None:
                    self.todo.append(self.decisions[:-1] + [False])
            elif ft:
                d = True
                self.decisions.append(True)
            elif ff:
                d = False
                self.decisions.append(False)
            else:
                self.pruned += 1
                raise PathEnd("infeasible")
        self.pos += 1
        if d:
            self.assume(tt if tt is not None else (sb.on_true(self) if sb.on_true is not None else cond))
        else:
            self.assume(tf if tf is not None else (sb.on_false(self) if sb.on_false is not None else z3.Not(cond)))
        return d

    def choose(self, nm, n, labels=None):
        """Symbolic choice among n outcomes (forks n-1 times)."""
        for i in range(n - 1):
            if bool(SB(self.fresh(f"{nm}.is{labels[i] if labels else i}", z3.BoolSort()))):
                return i
        return n - 1


def cur():
    c = Ctx.cur
    if c is None:
        raise RuntimeError("no active pyvc context")
    return c


# ---------------------------------------------------------------------------------------------
class SB:
    """Symbolic bool."""
    __slots__ = ("t", "on_true", "on_false")
    __array_ufunc__ = None

    def __init__(self, t, on_true=None, on_false=None):
        self.t = t
        self.on_true = on_true
        self.on_false = on_false

    def __bool__(self):
        return Ctx.cur.branch(self)

    def __and__(self, o):
        return SB(z3.And(self.t, tobool(o)))
    __rand__ = __and__

    def __or__(self, o):
        return SB(z3.Or(self.t, tobool(o)))
    __ror__ = __or__

    def __invert__(self):
        return SB(z3.Not(self.t), on_true=self.on_false, on_false=self.on_true)

    def __xor__(self, o):
        return SB(z3.Xor(self.t, tobool(o)))

    def __eq__(self, o):
        return SB(self.t == tobool(o))

    def __ne__(self, o):
        return SB(self.t != tobool(o))
    __hash__ = None

    def __index__(self):
        raise Unsupported("symbolic bool used as an index")

    def __repr__(self):
        return f"SB({self.t})"


def tobool(x):
    """z3 Bool term of a proxy / python bool / z3 term."""
    if isinstance(x, SB):
        return x.t
    if isinstance(x, bool):
        return z3.BoolVal(x)
    if z3.is_expr(x):
        return x
    try:
        import numpy as _np
        if isinstance(x, _np.bool_):
            return z3.BoolVal(bool(x))
    except ImportError:
        pass
    raise Unsupported(f"cannot interpret {type(x).__name__} as a boolean term")


def is_sym(x):
    return getattr(x, "_vcx_symbolic", False) or isinstance(x, SB)


# ---- lifted boolean connectives (targets of the AST rewrite) -----------------------------------
def vcx_and(*thunks):
    c = Ctx.cur
    acc = []
    parts = []
    npush = 0
    try:
        v = True
        for th in thunks:
            v = th()
            if isinstance(v, SB):
                t = z3.simplify(v.t)
                if z3.is_false(t):
                    return False if not acc else SB(z3.BoolVal(False))
                if z3.is_true(t):
                    v = True
                    continue
                acc.append(t)
                parts.append(v)
                if c is not None:
                    c.guards.append(t)
                    npush += 1
            elif not v:
                # python returns the falsy operand itself
                return v if not acc else SB(z3.BoolVal(False))
        if not acc:
            return v
        if not isinstance(v, (SB, bool)) and type(v).__name__ != "bool_":
            raise Unsupported(f"`and` of a symbolic bool with a non-boolean {type(v).__name__}")
        if len(parts) == 1:
            return parts[0]
        hook = None
        if any(p.on_true is not None for p in parts):
            def hook(ctx, parts=parts):
                return z3.And(*[(p.on_true(ctx) if p.on_true is not None else p.t) for p in parts])
        return SB(z3.And(*acc), on_true=hook)
    finally:
        if c is not None and npush:
            del c.guards[-npush:]


def vcx_or(*thunks):
    c = Ctx.cur
    acc = []
    parts = []
    npush = 0
    try:
        v = False
        for th in thunks:
            v = th()
            if isinstance(v, SB):
                t = z3.simplify(v.t)
                if z3.is_true(t):
                    return True if not acc else SB(z3.BoolVal(True))
                if z3.is_false(t):
                    v = False
                    continue
                acc.append(t)
                parts.append(v)
                if c is not None:
                    c.guards.append(z3.Not(t))
                    npush += 1
            elif v:
                return v if not acc else SB(z3.BoolVal(True))
        if not acc:
            return v
        if not isinstance(v, (SB, bool)) and type(v).__name__ != "bool_":
            raise Unsupported(f"`or` of a symbolic bool with a non-boolean {type(v).__name__}")
        if len(parts) == 1:
            return parts[0]
        hook = None
        if any(p.on_false is not None for p in parts):
            def hook(ctx, parts=parts):
                return z3.And(*[(p.on_false(ctx) if p.on_false is not None else z3.Not(p.t)) for p in parts])
        return SB(z3.Or(*acc), on_false=hook)
    finally:
        if c is not None and npush:
            del c.guards[-npush:]


def vcx_not(v):
    if isinstance(v, SB):
        return ~v
    return not v


# ---------------------------------------------------------------------------------------------
class PathResult:
    __slots__ = ("decisions", "kind", "value", "obligations", "pruned", "nbranch", "log", "error", "named", "ctx")


def run_path(run, decisions, fmodel, todo):
    _QCACHE.clear()
    del _QKEEP[:]
    c = Ctx(decisions, fmodel)
    c.todo = todo
    Ctx.cur = c
    res = PathResult()
    res.error = None
    try:
        res.value = run(c)
        res.kind = "ret"
    except PathEnd as e:
        res.kind = "end"
        res.value = str(e)
    except (Unsupported, StaleContract):
        Ctx.cur = None
        raise
    res.decisions = list(c.decisions)
    res.obligations = c.obligations
    res.pruned = c.pruned
    res.nbranch = c.pos
    res.log = c.log
    res.named = c.named
    res.ctx = c
    Ctx.cur = None
    return res


def explore(run, fmodel="ORDER", prefix=(), max_paths=200000, split=0, pending_out=None, budget=0):
    """Enumerate all paths of `run(ctx)` under the decision prefix. Yields PathResult.

    With split > 0 the exploration is breadth-first and stops as soon as at least `split` unexplored
    prefixes are pending; those are appended to `pending_out` (to be explored by other processes)."""
    todo = [list(prefix)]
    n = 0
    while todo:
        if split and len(todo) >= split:
            pending_out.extend(todo)
            return
        if budget and n >= budget and pending_out is not None:
            # work sharing: after `budget` paths hand the unexplored prefixes back to the pool
            pending_out.extend(todo)
            return
        dec = todo.pop(0) if split else todo.pop()
        n += 1
        if n > max_paths:
            raise Unsupported(f"more than {max_paths} paths")
        yield run_path(run, dec, fmodel, todo)
