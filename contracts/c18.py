"""C18: trust-region radius, resolution and penalty stay coherent (scalar rules of framework.py)."""
import z3
from pyvc.core import cur, SB, PathEnd
from pyvc.unit import Unit, call_expecting
from pyvc.values import SF, SI, PINF, NINF
from .common import shadow, sym_constants, constants_valid

_SH = {}


def fw_shadow():
    if "fw" not in _SH:
        _SH["fw"] = shadow("cobyqa.framework")
    return _SH["fw"]


class OpaqueVec:
    """A vector of which only the Euclidean norm is observed."""
    _vcx_symbolic = True

    def __init__(self, name="step"):
        self.name = name
        self._n = None

    def _vcx_norm(self):
        if self._n is None:
            c = cur()
            self._n = SF.fresh(self.name + "_norm", finite=True)
            c.assume(self._n.r >= 0)
        return self._n


def mk_tr(c, m, with_final=True):
    """A TrustRegion in an arbitrary state satisfying the object invariant 0 <= radius_final <= resolution <= radius."""
    tr = m.TrustRegion.__new__(m.TrustRegion)
    tr._constants = sym_constants(c)
    tr._radius = SF.fresh("radius", finite=True)
    tr._resolution = SF.fresh("resolution", finite=True)
    rf = SF.fresh("radius_final", finite=True)
    c.assume(z3.And(rf.r >= 0, rf.r <= tr._resolution.r, tr._resolution.r <= tr._radius.r))
    return tr, rf


def inv(tr, rf):
    return z3.And(z3.Not(tr._radius.nan), z3.Not(tr._resolution.nan),
                  rf.r >= 0, rf.r <= tr._resolution.r, tr._resolution.r <= tr._radius.r)


class RadiusSetter(Unit):
    name = "C18.radius_setter"
    props = ("C18",)
    fmodel = "REAL"
    functions = [("cobyqa.framework", "TrustRegion.radius")]
    replay = ("contracts.replays", "tr_radius_setter")

    def run(self, c):
        m = fw_shadow()
        tr, rf = mk_tr(c, m)
        res0 = tr._resolution
        new = SF.fresh("new_radius", finite=True)     # any finite value, even below the resolution or negative
        tr.radius = new
        c.oblige("C18.radius_setter.post.radius_ge_resolution", tr._radius.r >= tr._resolution.r)
        c.oblige("C18.radius_setter.post.invariant", inv(tr, rf))
        c.oblige("C18.radius_setter.frame.resolution_unchanged", tr._resolution.r == res0.r)
        c.oblige("C18.radius_setter.post.value", z3.Or(tr._radius.r == new.r, tr._radius.r == res0.r))


class UpdateRadius(Unit):
    name = "C18.update_radius"
    props = ("C18",)
    fmodel = "REAL"
    functions = [("cobyqa.framework", "TrustRegion.update_radius"), ("cobyqa.framework", "TrustRegion.radius")]
    replay = ("contracts.replays", "tr_update_radius")

    def run(self, c):
        m = fw_shadow()
        tr, rf = mk_tr(c, m)
        res0 = tr._resolution
        ratio = SF.fresh("ratio", finite=True)       # any reduction ratio, incl. negative and huge
        tr.update_radius(OpaqueVec(), ratio)
        c.oblige("C18.update_radius.post.invariant", inv(tr, rf))
        c.oblige("C18.update_radius.frame.resolution_unchanged", tr._resolution.r == res0.r)


class EnhanceResolution(Unit):
    name = "C18.enhance_resolution"
    props = ("C18",)
    fmodel = "REAL"
    functions = [("cobyqa.framework", "TrustRegion.enhance_resolution"), ("cobyqa.framework", "TrustRegion.resolution")]
    replay = ("contracts.replays", "tr_enhance_resolution")

    def run(self, c):
        from cobyqa.settings import Options
        m = fw_shadow()
        tr, rf = mk_tr(c, m)
        res0, rad0 = tr._resolution, tr._radius
        # call-site precondition (minimize): only called while resolution > radius_final
        c.assume(res0.r > rf.r)
        options = {Options.RHOEND.value: rf}
        tr.enhance_resolution(options)
        c.oblige("C18.enhance_resolution.post.resolution_decreases", tr._resolution.r < res0.r)
        c.oblige("C18.enhance_resolution.post.resolution_ge_final", tr._resolution.r >= rf.r)
        c.oblige("C18.enhance_resolution.post.radius_ge_resolution", tr._radius.r >= tr._resolution.r)
        c.oblige("C18.enhance_resolution.post.invariant", inv(tr, rf))
        # contraction lemma: either the final value is reached or the resolution shrinks by a factor < 1
        k = tr._constants
        f = k["decrease_resolution_factor"].r
        mod = k["moderate_resolution_threshold"].r
        new = tr._resolution.r
        # new <= f*res0  or  new^2 * mod <= res0^2 (i.e. new <= res0/sqrt(mod))  or new == rf
        c.oblige("C18.enhance_resolution.post.contraction",
                 z3.Or(new == rf.r, new <= f * res0.r, new * new * mod <= res0.r * res0.r))
        c.oblige("C18.enhance_resolution.post.radius_not_increased", tr._radius.r <= rad0.r)


class ShortStepRadius(Unit):
    """The short-step branch of minimize does `framework.radius *= decrease_resolution_factor` (through the setter)."""
    name = "C18.short_step_radius"
    props = ("C18",)
    fmodel = "REAL"
    functions = [("cobyqa.framework", "TrustRegion.radius")]
    replay = ("contracts.replays", "tr_radius_setter")

    def run(self, c):
        m = fw_shadow()
        tr, rf = mk_tr(c, m)
        tr.radius *= tr._constants["decrease_resolution_factor"]
        c.oblige("C18.short_step_radius.post.invariant", inv(tr, rf))


UNITS = [RadiusSetter(), UpdateRadius(), EnhanceResolution(), ShortStepRadius()]
