"""A Unit = one real function (or a lemma) under contract, with its symbolic harness."""
import time
import traceback
from fractions import Fraction
import z3
from .core import Ctx, explore, Unsupported, StaleContract, PathEnd, Obligation
from .solver import discharge, check_sat, SYMCACHE
from .values import base_axioms


class Unit:
    name = "?"
    props = ()
    optional_provides = None   # {substring of obligation name: optional invariant it establishes}
    default_props = None    # props of obligations that name none (default: all of `props`)
    fmodel = "ORDER"
    functions = ()          # [(module, qualname)] real functions executed / specified by this unit
    bounded = None          # None = unbounded proof; else a string stating the bound
    replay = None           # (module, function) of a z3-free native replay, optional
    timeout_ms = 10000
    max_paths = 200000
    assumptions = ()        # unchecked assumptions specific to this unit
    expected_exceptions = ()

    def run(self, c):
        raise NotImplementedError


def run_unit(unit, tier="quick", prefix=(), split=0, budget=0):
    """Explore all paths of a unit (under `prefix`), discharge its obligations.  Returns a picklable summary.

    split > 0: explore breadth-first only until `split` prefixes are pending and return them in out["pending"]."""
    t0 = time.time()
    out = {"unit": unit.name, "props": list(unit.props), "fmodel": unit.fmodel, "bounded": unit.bounded,
           "functions": [f"{m}:{q}" for m, q in unit.functions], "obligations": [], "paths": 0, "pruned": 0,
           "error": None, "error_kind": None, "solver_s": 0.0, "vacuous_paths": 0, "canary": None,
           "assumptions": list(unit.assumptions), "replay": unit.replay, "pending": []}
    timeout = unit.timeout_ms * (6 if tier == "thorough" else 1)

    def run(c):
        base_axioms(c)
        return unit.run(c)
    refuted = set()
    done_obs = set()
    unknowns = {}
    try:
        first = not prefix
        for res in explore(run, unit.fmodel, prefix=prefix, max_paths=unit.max_paths, split=split, pending_out=out["pending"], budget=budget):
            out["paths"] += 1
            out["pruned"] += res.pruned
            c = res.ctx
            if first and res.kind in ("ret", "end"):
                # canary: `false` under the first path's condition must be refutable, i.e. the path condition
                # (hence the unit's `requires`) is satisfiable and the solver is really being asked
                v, _, _, _ = check_sat(list(c.hyps), 5000, use_cvc5=False)
                out["canary"] = {"sat": "ok", "unknown": "unknown", "unsat": "VACUOUS"}[v]
                first = False
            SYMCACHE.clear()
            # grouped obligations (same path condition): one query for the conjunction first
            # the same obligation is generated again on every path that extends the decision prefix it was created under (paths
            # are explored by re-execution): discharge and record it once per worker
            occ, dup = {}, set()
            for ob in res.obligations:
                k_ = (ob.name, tuple(ob.path or ()))
                occ[k_] = occ.get(k_, 0) + 1
                k_ = k_ + (occ[k_],)
                if k_ in done_obs:
                    dup.add(id(ob))
                done_obs.add(k_)
            groups = {}
            for ob in res.obligations:
                if ob.group is not None and id(ob) not in dup:
                    groups.setdefault(ob.group, []).append(ob)
            for gid, obs in groups.items():
                if len(obs) < 2 or any(o.name in refuted for o in obs):
                    continue
                goals = [o.goal for o in obs if not z3.is_true(o.goal)]
                if not goals:
                    continue
                v, _, be, secs = check_sat(list(obs[0].pc) + [z3.Not(z3.And(*goals))], timeout, use_cvc5=False)
                out["solver_s"] += secs
                if v == "unsat":
                    for o in obs:
                        o.verdict, o.backend, o.secs = "unsat", be + "(group)", secs / len(obs)
            for ob in res.obligations:
                if id(ob) in dup:
                    continue
                if ob.verdict == "unsat":
                    pass
                elif ob.name in refuted and not z3.is_true(ob.goal):
                    # already refuted (with a counter-model) on another path: do not spend solver time on more models
                    ob.verdict, ob.backend, ob.secs, ob.model = "also-failing", "skipped", 0.0, None
                elif unknowns.get(ob.name, 0) >= 3 and not z3.is_true(ob.goal):
                    # the solvers gave up on this clause three times already (each costing every time-out of the portfolio):
                    # further instances are reported undecided without being asked, so that a check always ends
                    ob.verdict, ob.backend, ob.secs, ob.model = "unknown", "skipped(after 3 unknowns of the same clause)", 0.0, None
                else:
                    discharge(ob, timeout)
                    needs = None
                    if ob.verdict != "unsat" and ob.optional:
                        # failed without the optional invariants: try again with them; if that succeeds the obligation is
                        # discharged *conditionally* and names the invariants the check must then find established
                        ob2 = Obligation(ob.name, list(ob.pc) + [f for _, f in ob.optional], ob.goal, ob.info)
                        ob2.hints = ob.hints
                        discharge(ob2, timeout)
                        ob.secs += ob2.secs
                        if ob2.verdict == "unsat":
                            needs = sorted({n for n, _ in ob.optional})
                            ob.verdict, ob.model, ob.zmodel = "unsat", None, None
                            ob.backend = ob2.backend + "+optional:" + ",".join(needs)
                    if ob.verdict == "sat":
                        refuted.add(ob.name)
                    elif ob.verdict != "unsat":
                        unknowns[ob.name] = unknowns.get(ob.name, 0) + 1
                out["solver_s"] += ob.secs
                rec = {"name": ob.name, "verdict": ob.verdict, "backend": ob.backend, "secs": round(ob.secs, 4),
                       "model": ob.model, "path": "".join("T" if d else "F" for d in (ob.path or [])),
                       "props": list(ob.info.get("props") or getattr(unit, "default_props", None) or unit.props), "kind": ob.info.get("kind", "contract"),
                       "note": ob.info.get("note"), "fmodel": ob.info.get("fmodel", unit.fmodel)}
                if ob.verdict == "unsat" and "+optional:" in (ob.backend or ""):
                    rec["needs"] = ob.backend.split("+optional:")[1].split(",")
                prov = ob.info.get("provides") or next((v for k, v in (unit.optional_provides or {}).items() if k in ob.name), None)
                if prov:
                    rec["provides"] = prov
                if ob.verdict == "sat" and ob.info.get("replay_inputs") is not None and unit.replay:
                    rec["replay_inputs"] = ob.info["replay_inputs"]      # a concrete failing case recorded by a bounded unit
                elif ob.verdict in ("sat", "candidate") and ob.zmodel is not None and unit.replay:
                    try:
                        rec["replay_inputs"] = concretize(c.named, ob.zmodel)
                        rec["replay_inputs"]["vcx_obligation"] = ob.name
                    except Exception as e:  # noqa
                        rec["replay_inputs_error"] = repr(e)
                    if ob.verdict == "candidate" and "replay_inputs" in rec:
                        # a model of the *weakened* (finitely expanded) query: decide it at once by the native replay, so that a
                        # confirmed counterexample stops the search for more of them on the remaining paths
                        res_ = native_replay_inputs(unit.replay, rec["replay_inputs"])
                        rec["candidate_replayed"] = bool(res_.get("reproduced"))
                        if rec["candidate_replayed"]:
                            ob.verdict = rec["verdict"] = "sat"
                            rec["backend"] = ob.backend = (ob.backend or "") + "+native-replay"
                            refuted.add(ob.name)
                out["obligations"].append(rec)
    except Unsupported as e:
        out["error"] = "Unsupported: " + str(e) + "\n" + traceback.format_exc(limit=12)
        out["error_kind"] = "engine"
    except StaleContract as e:
        out["error"] = "StaleContract: " + str(e)
        out["error_kind"] = "stale"
    except Exception as e:  # an engine bug, never a verdict
        out["error"] = "Engine error: " + repr(e) + "\n" + traceback.format_exc(limit=20)
        out["error_kind"] = "engine"
    out["wall_s"] = round(time.time() - t0, 3)
    return out


def native_replay_file(replay_file):
    """Run the z3-free native replay under the repository's own interpreter."""
    import json, os, subprocess, sys
    from .transform import repo_root
    verif = os.path.dirname(os.path.dirname(os.path.abspath(__file__)))
    py = "/venv/bin/python" if os.path.exists("/venv/bin/python") else sys.executable
    env = dict(os.environ)
    env["PYTHONPATH"] = verif + os.pathsep + repo_root()
    env["REPO"] = repo_root()
    try:
        p = subprocess.run([py, os.path.join(verif, "pyvc", "replay_native.py"), replay_file],
                           capture_output=True, text=True, timeout=300, env=env, cwd=verif)
        last = [l for l in p.stdout.strip().splitlines() if l.startswith("{")]
        if last:
            return json.loads(last[-1])
        return {"reproduced": False, "error": (p.stdout + p.stderr)[-800:]}
    except Exception as e:  # noqa
        return {"reproduced": False, "error": repr(e)}


def native_replay_inputs(replay, inputs):
    import json, os, tempfile
    from .transform import repo_root
    fd, tmp = tempfile.mkstemp(prefix="vcx-cand-", suffix=".json")
    try:
        with os.fdopen(fd, "w") as fh:
            json.dump({"repo": repo_root(), "native": {"module": replay[0], "function": replay[1], "inputs": inputs}}, fh, default=str)
        return native_replay_file(tmp)
    finally:
        os.unlink(tmp)


def _frac(v):
    if z3.is_int_value(v):
        return Fraction(v.as_long())
    if z3.is_rational_value(v):
        return Fraction(v.numerator_as_long(), v.denominator_as_long())
    if z3.is_algebraic_value(v):
        a = v.approx(20)
        return Fraction(a.numerator_as_long(), a.denominator_as_long())
    return None


def _num(v):
    """python number of a z3 model value (rational / algebraic / int / bool)."""
    if z3.is_true(v):
        return True
    if z3.is_false(v):
        return False
    if z3.is_int_value(v):
        return v.as_long()
    fr = _frac(v)
    if fr is None:
        return None
    try:
        return float(fr)
    except OverflowError:
        return 1.7976931348623157e308 if fr > 0 else -1.7976931348623157e308


HUGE = 10 ** 300


def _squeeze(tree):
    """Replace exact Fractions by floats, order-preservingly: values beyond the float range are squeezed below it."""
    vals = set()

    def collect(t):
        if isinstance(t, Fraction):
            vals.add(t)
        elif isinstance(t, (list, tuple)):
            for e in t:
                collect(e)
        elif isinstance(t, dict):
            for e in t.values():
                collect(e)
    collect(tree)
    big_pos = sorted(v for v in vals if v > HUGE)
    big_neg = sorted((v for v in vals if v < -HUGE), reverse=True)
    mp = {}
    for i, v in enumerate(big_pos):
        mp[v] = 1e300 * (2 + i)
    for i, v in enumerate(big_neg):
        mp[v] = -1e300 * (2 + i)

    def conv(t):
        if isinstance(t, Fraction):
            return mp[t] if t in mp else float(t)
        if isinstance(t, list):
            return [conv(e) for e in t]
        if isinstance(t, tuple):
            return tuple(conv(e) for e in t)
        if isinstance(t, dict):
            return {k: conv(e) for k, e in t.items()}
        return t
    return conv(tree)


def concretize(named, zm, cap=64):
    """Concrete python values of the named inputs / stub outputs under a z3 model."""
    from .values import SF, SI, PINF, NINF
    from .core import SB
    from .vecs import SV
    pinf = zm.eval(PINF, model_completion=True)
    ninf = zm.eval(NINF, model_completion=True)

    def fl(x):
        if z3.is_true(zm.eval(x.nan, model_completion=True)):
            return "nan"
        r = zm.eval(x.r, model_completion=True)
        if r.eq(pinf):
            return "inf"
        if r.eq(ninf):
            return "-inf"
        fr = _frac(r)
        return fr if fr is not None else _num(r)

    def val(p):
        if isinstance(p, SF):
            return fl(p)
        if isinstance(p, SI):
            return _num(zm.eval(p.t, model_completion=True))
        if isinstance(p, SB):
            return _num(zm.eval(p.t, model_completion=True))
        return None
    out = {}
    for nm, p in named.items():
        if isinstance(p, (SF, SI, SB)):
            out[nm] = val(p)
        elif isinstance(p, SV):
            n = _num(zm.eval(p.n, model_completion=True))
            if n is None or n > cap:
                out[nm] = {"len": n, "elems": None}
                continue
            out[nm] = [val(p.at(z3.IntVal(i))) for i in range(max(n, 0))]
        elif hasattr(p, "_vcx_concretize"):
            out[nm] = p._vcx_concretize(zm, val, cap)
    return _squeeze(out)


class EscapedException(Exception):
    pass


def call_expecting(c, name, fn, allowed=(), props=None):
    """Run `fn()`; an exception outside `allowed` is a failed obligation `<name>.no_unexpected_exception`.

    Returns ("ret", value) or ("exc", exception)."""
    try:
        return "ret", fn()
    except (PathEnd, Unsupported, StaleContract):
        raise
    except allowed as e:
        return "exc", e
    except Exception as e:
        # an exception raised *inside* the engine's own code is an engine bug, not a behaviour of cobyqa
        frames = traceback.extract_tb(e.__traceback__)
        from .transform import repo_root
        last_repo = max([i for i, f in enumerate(frames) if f.filename.startswith(repo_root())], default=-1)
        eng = [f for f in frames[last_repo + 1:] if "/pyvc/" in f.filename]
        if eng and not (isinstance(e, (KeyError, IndexError, ZeroDivisionError)) and "/pyvc/" in frames[-1].filename):
            raise Unsupported(f"engine gap below the code under test: {type(e).__name__}: {e} at {eng[-1].filename}:{eng[-1].lineno}")
        tb = traceback.format_exc(limit=6)
        info = {"note": f"{type(e).__name__}: {e} | {tb[-600:]}"}
        if props:
            info["props"] = props
        c.oblige(name + ".no_unexpected_exception", z3.BoolVal(False), **info)
        raise PathEnd("unexpected exception")
