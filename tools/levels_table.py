#!/usr/bin/env python3
"""Print the 'levels reached' table of DESIGN.md from evidence/*.json."""
import json, os, glob
here = os.path.dirname(os.path.dirname(os.path.abspath(__file__)))
man = {c["property_id"]: c for c in json.load(open(os.path.join(here, "MANIFEST.json")))["checks"]}
print("| property | unbounded obligations discharged | bounded clauses | level claimed | wall (s) | units |")
print("|---|---|---|---|---|---|")
for p in sorted(glob.glob(os.path.join(here, "evidence", "C*.json"))):
    e = json.load(open(p))
    cov = e["coverage"]
    units = ", ".join(u["unit"] for u in cov["units"])
    print(f"| {e['property_id']} | {cov['discharged']}/{cov['obligations']} | {cov['bounded_discharged']}/{cov['bounded_obligations']} | "
          f"{man[e['property_id']]['level_claimed']['category']} | {e['wall_s']:.0f} | {units} |")
